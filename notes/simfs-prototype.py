"""Design-phase prototype (not framework code): unmodified netconan CLI on an in-memory disk.

Wraps only the interpreter's file-system primitives for paths under a virtual root; the real
os.walk / os.makedirs / os.path / pathlib run on top.  Run: /venv/bin/python notes/simfs-prototype.py
"""
import builtins, errno, io, logging, os, posixpath, stat

ROOT = "/simfs-1"
dirs = {ROOT, ROOT + "/in", ROOT + "/in/sub", ROOT + "/in/empty"}
files = {
    ROOT + "/in/a.cfg": b"password foo\nip address 1.2.3.4\n",
    ROOT + "/in/sub/c d.cfg": b"password baz\n",
    ROOT + "/in/.hid": b"x\n",
    ROOT + "/in/b.cfg": b"bad \xff\n",
}
trace = []


def mine(p):
    try:
        p = os.fspath(p)
    except TypeError:
        return False
    return isinstance(p, str) and (p == ROOT or p.startswith(ROOT + "/"))


def norm(p):
    return posixpath.normpath(os.fspath(p))


real = {n: getattr(os, n) for n in ("stat", "lstat", "scandir", "listdir", "mkdir")}
real_open = builtins.open


class St:
    def __init__(s, mode, size):
        s.st_mode, s.st_size = mode, size
        s.st_mtime = s.st_ino = s.st_dev = s.st_uid = s.st_gid = 0
        s.st_nlink = 1


def sim_stat(p, *a, **k):
    if not mine(p):
        return real["stat"](p, *a, **k)
    q = norm(p)
    trace.append(("stat", q))
    if q in dirs:
        return St(stat.S_IFDIR | 0o755, 0)
    if q in files:
        return St(stat.S_IFREG | 0o644, len(files[q]))
    raise FileNotFoundError(errno.ENOENT, "No such file or directory", q)


class DE:
    def __init__(s, d, n):
        s.name, s.path = n, posixpath.join(d, n)
        s._q = norm(s.path)

    def is_dir(s, follow_symlinks=True):
        return s._q in dirs

    def is_file(s, follow_symlinks=True):
        return s._q in files

    def is_symlink(s):
        return False

    def stat(s, follow_symlinks=True):
        return sim_stat(s._q)

    def __fspath__(s):
        return s.path


class SD:
    def __init__(s, d):
        q = norm(d)
        if q not in dirs:
            raise (NotADirectoryError if q in files else FileNotFoundError)(errno.ENOENT, "x", q)
        names = sorted({x[len(q) + 1:].split("/")[0] for x in list(dirs) + list(files) if x.startswith(q + "/")}, reverse=True)
        s.it = iter([DE(d, n) for n in names])

    def __iter__(s):
        return s

    def __next__(s):
        return next(s.it)

    def __enter__(s):
        return s

    def __exit__(s, *a):
        pass

    def close(s):
        pass


def sim_scandir(p="."):
    if not mine(p):
        return real["scandir"](p)
    trace.append(("scandir", norm(p)))
    return SD(p)


def sim_listdir(p="."):
    if not mine(p):
        return real["listdir"](p)
    trace.append(("listdir", norm(p)))
    return [e.name for e in SD(p)]


def sim_mkdir(p, mode=0o777, **k):
    if not mine(p):
        return real["mkdir"](p, mode, **k)
    q = norm(p)
    trace.append(("mkdir", q))
    if q in dirs or q in files:
        raise FileExistsError(errno.EEXIST, "File exists", q)
    if posixpath.dirname(q) not in dirs:
        raise FileNotFoundError(errno.ENOENT, "x", q)
    dirs.add(q)


class RawW(io.RawIOBase):
    def __init__(s, q):
        s.q = q
        files[q] = b""

    def writable(s):
        return True

    def write(s, b):
        files[s.q] += bytes(b)
        return len(b)


class RawR(io.RawIOBase):
    def __init__(s, q):
        s.d, s.p = files[q], 0

    def readable(s):
        return True

    def readinto(s, b):
        n = min(len(b), len(s.d) - s.p)
        b[:n] = s.d[s.p:s.p + n]
        s.p += n
        return n


def sim_open(p, mode="r", *a, **k):
    if not mine(p):
        return real_open(p, mode, *a, **k)
    q = norm(p)
    trace.append(("open", q, mode))
    if q in dirs:
        raise IsADirectoryError(errno.EISDIR, "Is a directory", q)
    if "r" in mode:
        if q not in files:
            raise FileNotFoundError(errno.ENOENT, "x", q)
        return io.TextIOWrapper(io.BufferedReader(RawR(q)), encoding="utf-8")
    if posixpath.dirname(q) not in dirs:
        raise FileNotFoundError(errno.ENOENT, "x", q)
    return io.TextIOWrapper(io.BufferedWriter(RawW(q)), encoding="utf-8")


if __name__ == "__main__":
    os.stat = os.lstat = sim_stat
    os.scandir, os.listdir, os.mkdir = sim_scandir, sim_listdir, sim_mkdir
    builtins.open = io.open = sim_open
    logging.basicConfig(level=logging.ERROR, format="%(levelname)s %(message)s")
    import sys
    sys.path.insert(0, "/repo")
    from netconan.netconan import main

    main(["-i", ROOT + "/in", "-o", ROOT + "/out", "-a", "-p", "-s", "S", "-d", ROOT + "/map"])
    for k in sorted(files):
        if "/out" in k or k.endswith("map"):
            print(k, files[k])
    print(len(trace), "primitive calls")
