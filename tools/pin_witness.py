#!/venv/bin/python
"""Find, minimise and pin a witness plan: tools/pin_witness.py <prop> <family> <tag-substring> <name> [opts-json]"""
import json, os, sys
sys.path.insert(0, os.path.dirname(os.path.dirname(os.path.abspath(__file__))))
from sim import core
prop, famname, tagsub, name = sys.argv[1:5]
opts = json.loads(sys.argv[5]) if len(sys.argv) > 5 else {}
keysub = sys.argv[6] if len(sys.argv) > 6 else None
fam = core.family(famname)
for seed in range(0, 5000):
    plan = fam.generate(seed, "quick", **opts)
    res = fam.check(plan)
    vs = [v for v in res["violations"] if v["prop"] == prop and (v["tag"] == tagsub[1:] if tagsub.startswith("=") else tagsub in v["tag"]) and (keysub is None or keysub in str(v.get("key")))]
    if not vs:
        continue
    v = vs[0]
    small, execs = core.shrink(fam, plan, prop, v["tag"])
    res = fam.check(small)
    vv = [x for x in res["violations"] if x["prop"] == prop and x["tag"] == v["tag"]][0]
    path = os.path.join(core.VERIF, "corpus", "%s-%s.json" % (prop, name))
    with open(path, "w") as f:
        json.dump({"property": prop, "family": famname, "seed": seed, "plan": small,
                   "expect": {"tag": vv["tag"], "detail": vv["detail"], "digest": res["digest"]},
                   "note": "pinned witness (%s), minimised with %d executions" % (name, execs)}, f, indent=1, sort_keys=True, default=core._default)
    print("pinned", path, "seed", seed, vv["tag"], "\n ", vv["detail"][:300])
    break
else:
    print("no witness found")
    sys.exit(1)
