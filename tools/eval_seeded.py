#!/venv/bin/python
"""Confirm a seeded change and run the checks against it.

    tools/eval_seeded.py <src-dir> <seeded-id> [--props C12,C13] [--scale 1.0] [--keep]

<src-dir> holds patch.diff, demo.py|demo.sh, meta.json as delivered by a sub-agent.  Steps:
  1. scratch copy of /repo (outside /repo and /verif), demo on the unchanged copy must pass
  2. apply patch; the repository's own test suite must pass; demo must fail
  3. run the quick check of every requested property against the patched copy (VERIF_REPO)
  4. with --keep, store everything under /verif/seeded/<id>/ with the results in meta.json
The scratch copy is removed afterwards.
"""
import argparse
import json
import os
import shutil
import subprocess
import sys
import tempfile
import time

VERIF = os.path.dirname(os.path.dirname(os.path.abspath(__file__)))
PY = "/venv/bin/python"
ALL = ["C02", "C03", "C07", "C08", "C10", "C12", "C13", "C16", "C17"]


def run(cmd, cwd=None, env=None, timeout=3600):
    p = subprocess.run(cmd, cwd=cwd, env=env, capture_output=True, text=True, timeout=timeout)
    out = "\n".join(l for l in (p.stdout + p.stderr).splitlines() if "condarc" not in l)
    return p.returncode, out


def main():
    ap = argparse.ArgumentParser()
    ap.add_argument("src")
    ap.add_argument("sid")
    ap.add_argument("--props")
    ap.add_argument("--scale", type=float, default=1.0)
    ap.add_argument("--keep", action="store_true")
    a = ap.parse_args()
    meta = json.load(open(os.path.join(a.src, "meta.json")))
    demo = "demo.py" if os.path.exists(os.path.join(a.src, "demo.py")) else "demo.sh"
    demo_cmd = [PY, os.path.join(os.path.abspath(a.src), demo)] if demo.endswith(".py") else ["bash", os.path.join(os.path.abspath(a.src), demo)]
    d = tempfile.mkdtemp(prefix="nc-seeded-")
    report = {"ran": []}
    try:
        subprocess.run(["cp", "-r", "/repo/.", d], check=True)
        subprocess.run(["git", "checkout", "-q", "--", "."], cwd=d)
        rc0, out0 = run(demo_cmd, cwd=d)
        report["demo_unchanged_rc"] = rc0
        rc, out = run(["git", "apply", os.path.join(os.path.abspath(a.src), "patch.diff")], cwd=d)
        if rc != 0:
            print("patch does not apply:", out)
            return 3
        rc1, out1 = run(demo_cmd, cwd=d)
        report["demo_changed_rc"] = rc1
        rct, outt = run([PY, "-m", "pytest", "-q", "-p", "no:cacheprovider", "-x"], cwd=d)
        report["suite"] = outt.strip().splitlines()[-1] if outt.strip() else ""
        report["suite_rc"] = rct
        print("demo unchanged rc=%d, demo with change rc=%d, suite: %s" % (rc0, rc1, report["suite"]))
        confirmed = rc0 == 0 and rc1 != 0 and rct == 0
        report["confirmed"] = confirmed
        props = a.props.split(",") if a.props else ALL
        caught = {}
        for p in props:
            env = dict(os.environ, VERIF_REPO=d, VERIF_EVIDENCE_DIR=os.path.join(d, ".evidence"))
            t0 = time.perf_counter()
            rcc, outc = run([PY, os.path.join(VERIF, "check"), p, "--tier", "quick", "--scale", str(a.scale)], env=env)
            first = [l.strip() for l in outc.splitlines() if "first: family=" in l]
            detail = [l.strip() for l in outc.splitlines() if l.startswith("  ") and "minimised" not in l and "family" not in l and "evaluations" not in l]
            caught[p] = {"exit": rcc, "first": first[0] if first else "", "wall_s": round(time.perf_counter() - t0, 1)}
            print("  %s exit=%d %5.1fs %s" % (p, rcc, time.perf_counter() - t0, (first[0] if first else "")[:150]))
            if rcc == 1 and detail:
                print("       " + detail[-1][:300])
            if rcc == 2:
                print(outc[-1500:])
        report["checks"] = caught
        report["ran"] = "scratch copy of /repo + git apply patch.diff; pytest -q -x; demo with and without the change; " \
                        "check <ID> --tier quick --scale %s with VERIF_REPO=<copy> for %s" % (a.scale, ",".join(props))
        if a.keep:
            dst = os.path.join(VERIF, "seeded", a.sid)
            os.makedirs(dst, exist_ok=True)
            shutil.copy(os.path.join(a.src, "patch.diff"), dst)
            shutil.copy(os.path.join(a.src, demo), dst)
            meta2 = {"id": a.sid, "property": meta.get("property"), "summary": meta.get("summary"), "needs": meta.get("needs"),
                     "author": "independent sub-agent given only the property text and a scratch worktree",
                     "confirmed": report}
            json.dump(meta2, open(os.path.join(dst, "meta.json"), "w"), indent=1)
            print("kept under", dst)
        return 0
    finally:
        shutil.rmtree(d, ignore_errors=True)


if __name__ == "__main__":
    sys.exit(main())
