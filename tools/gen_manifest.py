#!/usr/bin/env python3
"""Regenerates /verif/MANIFEST.json from the registry and validates it against the schema."""
import json
import os
import sys

HERE = os.path.dirname(os.path.dirname(os.path.abspath(__file__)))
sys.path.insert(0, HERE)
from sim.manifest_data import CHECKS, NOT_APPLICABLE, NOTES  # noqa: E402

PY = "/venv/bin/python"

manifest = {
    "version": 1,
    "setup_cmd": PY + " -c \"import hypothesis, passlib, bidict, configargparse; print('deps ok')\"",
    "hooks": {
        "guard": "NETCONAN_VERIF",
        "enable": "no hook was added to /repo: every seam sits at the interpreter's syscall primitives, module attributes and "
                  "stream arguments (DESIGN.md §2.3); checks import netconan from /repo's working tree on every run",
        "baseline_off_cmd": "cd /repo && /venv/bin/python -m pytest -q -p no:cacheprovider --timeout=900",
        "source_commits": [],
        "add_only": True,
    },
    "engines": [{
        "name": "netconan-dsim",
        "path": "/verif/sim",
        "serves_properties": [c["property_id"] for c in CHECKS],
        "kind_free_text": "deterministic simulation with fault injection: seeded planner -> pure executor over an in-memory "
                          "file system behind the syscall primitives, simulated processes (fresh imports, seams for hash-set "
                          "order, entropy, clock, pid), cold-twin / stream-twin / paired-world oracles, structural minimiser, "
                          "replay files",
    }],
    "checks": [],
    "notes": NOTES,
    "not_applicable": NOT_APPLICABLE,
}
for c in CHECKS:
    pid = c["property_id"]
    manifest["checks"].append({
        "property_id": pid,
        "quick_cmd": "timeout 900 %s check %s --tier quick" % (PY, pid),
        "thorough_cmd": "timeout 7200 %s check %s --tier thorough" % (PY, pid),
        "evidence_file": "/verif/evidence/%s.json" % pid,
        "replay_cmd_template": PY + " check replay {path}",
        "engine": "netconan-dsim",
        "level_claimed": {"category": "exploration", "text": c["level_text"], "design_ref": c["design_ref"]},
        "level_note": c["level_note"],
        "technique": c["technique"],
    })

out = os.path.join(HERE, "MANIFEST.json")
with open(out, "w") as f:
    json.dump(manifest, f, indent=1)
    f.write("\n")
try:
    import jsonschema
    schema = json.load(open("/root/.vp/MANIFEST.schema.json"))
    jsonschema.validate(manifest, schema)
    print("MANIFEST.json valid: %d checks, %d not applicable" % (len(CHECKS), len(NOT_APPLICABLE)))
except ImportError:
    print("jsonschema not available; MANIFEST.json written but not validated")
ids = {c["property_id"] for c in CHECKS} | {n["property_id"] for n in NOT_APPLICABLE}
want = {"C%02d" % i for i in range(1, 20)}
assert ids == want, (sorted(want - ids), sorted(ids - want))
