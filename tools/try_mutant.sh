#!/bin/bash
# usage: tools/try_mutant.sh <patch> <check args...>   -- runs a check against a scratch copy of /repo with the patch applied
set -u
patch=$(readlink -f "$1"); shift
d=$(mktemp -d /tmp/nc-mut-XXXXXX)
cp -r /repo/. "$d"/ && (cd "$d" && git apply "$patch") || { echo "PATCH-FAILED $patch"; rm -rf "$d"; exit 3; }
cd /verif && VERIF_REPO="$d" /venv/bin/python check "$@" 2>&1 | grep -v condarc
rc=${PIPESTATUS[0]}
rm -rf "$d"
exit $rc
