"""Family `ipm`: request histories on live IP anonymizers (C02-A, C03-A, C17 request level).

One plan = a few anonymizer configurations and 5-40 requests (anonymize / undo / text-level
replacement / dump / restart in a new simulated process / fork) on named instances.  The oracle is
the *cold twin*: a brand-new anonymizer in another simulated process that is asked only that one
question.  No hash construction is pinned.
"""
import copy
import io
import ipaddress
import random
import re

from . import core
from .proc import SimProcess

NAME = "ipm"

SALT_CHARS = "abcdefghijklmnopqrstuvwxyzABCDEFGHIJKLMNOPQRSTUVWXYZ0123456789"


# ---------------------------------------------------------------------------
# generation
# ---------------------------------------------------------------------------
def _salt(r):
    c = r.random()
    if c < 0.08:
        return ""
    if c < 0.16:
        return "sälz-✓" + "".join(r.choice(SALT_CHARS) for _ in range(r.randint(0, 4)))
    return "".join(r.choice(SALT_CHARS) for _ in range(r.randint(1, 16)))


def _rand_net4(r):
    plen = r.choice([0, 1, 4, 8, 12, 16, 20, 24, 28, 30, 31, 32, r.randint(0, 32)])
    base = r.getrandbits(32)
    if plen == 0:
        base = 0
    else:
        base &= (0xFFFFFFFF << (32 - plen)) & 0xFFFFFFFF
    return "%s/%d" % (ipaddress.IPv4Address(base), plen)


def _cfg(r, kind):
    cfg = {"kind": kind, "salt": _salt(r), "suffix": None, "pp": None, "pa": None, "width": None}
    if kind == "v4":
        cfg["width"] = 32
        cfg["suffix"] = r.choice([None, 0, 8, 8, 1, 16, 24, 31, 32, r.randint(0, 32)])
        c = r.random()
        if c < 0.35:
            cfg["pp"] = None
        elif c < 0.45:
            cfg["pp"] = []
        else:
            cfg["pp"] = [_rand_net4(r) for _ in range(r.randint(1, 4))]
            if r.random() < 0.4 and cfg["pp"]:
                # nested prefix inside the first one
                n = ipaddress.ip_network(cfg["pp"][0])
                if n.prefixlen < 30:
                    sub = list(n.subnets(prefixlen_diff=min(2, 32 - n.prefixlen)))[r.randint(0, 3)]
                    cfg["pp"].append(str(sub))
        if r.random() < 0.35:
            cfg["pa"] = [_rand_net4(r) for _ in range(r.randint(1, 3))]
            cfg["pa"] = [p for p in cfg["pa"] if not p.endswith("/0")] or ["10.9.8.7/32"]
    elif kind == "v6":
        cfg["width"] = 128
        cfg["suffix"] = r.choice([None, 0, 8, 8, 1, 16, 32, r.randint(0, 32)])
    else:
        cfg["width"] = r.randint(4, 10)
        cfg["suffix"] = r.choice([None, 0, 0, 1, 2, r.randint(0, cfg["width"])])
    return cfg


def _pool(r, cfg):
    w = cfg["width"]
    full = (1 << w) - 1
    bases = [r.getrandbits(w) for _ in range(r.randint(1, 3))]
    pool = set()
    for b in bases:
        pool.add(b)
        for _ in range(r.randint(2, 6)):
            k = r.randint(0, w - 1)
            pool.add(b ^ (1 << k))                       # one-bit neighbour at depth w-1-k
            low = r.randint(0, w)
            pool.add(((b >> low) << low) | r.getrandbits(low) if low else b)
    pool.update([0, full])
    if cfg["kind"] == "v4":
        for n in (cfg["pp"] or []) + (cfg["pa"] or []) + ["10.0.0.0/8", "192.168.0.0/16"]:
            net = ipaddress.ip_network(n)
            for _ in range(2):
                pool.add(int(net.network_address) | r.getrandbits(32 - net.prefixlen) if net.prefixlen < 32
                         else int(net.network_address))
        pool.add(0xFFFFFF00)
        pool.add(0x000000FF)
    return sorted(pool)


def _tok4(r, x):
    s = str(ipaddress.IPv4Address(x))
    c = r.random()
    if c < 0.15:
        s = ".".join(("0" * r.randint(1, 2) + o) for o in s.split("."))
    if r.random() < 0.25:
        s += "/%d" % r.randint(0, 32)
    return s


def _tok6(r, x):
    a = ipaddress.IPv6Address(x)
    c = r.random()
    if c < 0.5:
        s = a.compressed
    elif c < 0.8:
        s = a.exploded
    else:
        s = a.compressed.upper()
    # embedded-IPv4 spellings are excluded (C06, not applicable here); "::"-only forms are fine
    if r.random() < 0.3:
        s += "/%d" % r.choice([48, 64, 96, 127, 128])
    return s


_LINES4 = ["ip address {a} {m}", " neighbor {a} remote-as 65001", "permit ip host {a} {b} 0.0.0.255",
           "ip route {a} {b}", "set interfaces ge-0/0/0 unit 0 family inet address {a}", "ntp server {a};",
           "  description to-{a}-core ({b})", "{a},{b}"]
_LINES6 = ["ipv6 address {a}", " neighbor {a} remote-as 65001", "ipv6 route {a} {b}",
           "set interfaces lo0 unit 0 family inet6 address {a}", "  description [{a}] and {b}.", "{a} {b}"]


def generate(seed, tier="quick", **opts):
    r = random.Random(seed)
    kind = r.choices(["v4", "v6", "small"], [50, 33, 17])[0]
    cfgs = [_cfg(r, kind)]
    # noise configuration: a sibling of the main one (same salt, other host bits / preserve lists), the same
    # kind with another salt, or the other family
    c = r.random()
    if c < 0.45:
        sib = dict(cfgs[0])
        which = r.random()
        if which < 0.6 or kind != "v4":
            w = cfgs[0]["width"]
            sib["suffix"] = r.choice([x for x in (None, 0, 8, 1, min(16, w - 1), w // 2) if x != cfgs[0]["suffix"]])
        elif which < 0.8:
            sib["pp"] = None if cfgs[0]["pp"] is not None else [_rand_net4(r)]
        else:
            sib["pa"] = None if cfgs[0]["pa"] else ["10.9.8.0/24"]
        cfgs.append(sib)
    else:
        nk = kind if c < 0.75 else ("v6" if kind != "v6" else "v4")
        cfgs.append(_cfg(r, nk))
    pools = [_pool(r, c) for c in cfgs]
    if cfgs[1]["kind"] == cfgs[0]["kind"] and cfgs[1]["width"] == cfgs[0]["width"]:
        pools[1] = pools[0]          # siblings are asked about the very same addresses
    names = ["A", "B", "C"][: r.randint(1, 3)]
    nops = r.randint(5, 40 if kind != "v6" else 28)
    ops = []
    hist = {"anon": [], "deanon": []}   # ids of earlier requests, for result references
    text_hist = []                      # earlier text-level requests
    restarts = 0
    for n in range(nops):
        c = r.random()
        op = {"id": n}
        if c < 0.12 and names:
            op.update(op="noise", i="N", dir=r.choice(["anon", "anon", "deanon"]), x=r.choice(pools[1]))
        elif c < 0.40:
            op.update(op="anon", i=r.choice(names), x=r.choice(pools[0]))
            if hist["deanon"] and r.random() < 0.35:
                op["ref"] = r.choice(hist["deanon"])       # anon(F^-1(y)) after deanon(y)
            hist["anon"].append(n)
        elif c < 0.72:
            op.update(op="deanon", i=r.choice(names), x=r.choice(pools[0]))
            if hist["anon"] and r.random() < 0.5:
                op["ref"] = r.choice(hist["anon"])         # deanon(F(x)), possibly on another instance
            hist["deanon"].append(n)
        elif c < 0.82 and kind != "small":
            toks = (_tok4 if kind == "v4" else _tok6)
            t = r.choice(_LINES4 if kind == "v4" else _LINES6)
            line = t.format(a=toks(r, r.choice(pools[0])), b=toks(r, r.choice(pools[0])),
                            m=r.choice(["255.255.255.0", "255.255.255.252", "0.0.0.255"]))
            op.update(op="text", i=r.choice(names), line=line + r.choice(["\n", "", " \n"]), undo=r.random() < 0.4)
            if text_hist and r.random() < 0.35:
                # the very text of an earlier text-level request once more, in the other direction (often on the same
                # live instance): a per-text replacement memo must not answer across directions (seeded C02-t)
                prev = r.choice(text_hist)
                op.update(line=prev["line"], undo=not prev["undo"])
                if r.random() < 0.7:
                    op["i"] = prev["i"]
            text_hist.append(op)
        elif c < 0.88:
            op.update(op="dump", i=r.choice(names))
        elif c < 0.94 and restarts < 2:
            restarts += 1
            op.update(op="restart", i=r.choice(names))
        elif c < 0.97 and len(names) > 1:
            i, j = r.sample(names, 2)
            op.update(op="fork", i=i, j=j)
        else:
            op.update(op="anon", i=r.choice(names), x=r.choice(pools[0]))
            hist["anon"].append(n)
        ops.append(op)
    # a long stretch of traffic on one instance (memo growth: eviction, compaction, size bounds)
    c = r.random()
    if c < 0.05:
        nb = 6000 if c < 0.012 else (2500 if c < 0.025 else 300)
        if kind == "small":
            nb = 300
        ops.insert(r.randint(0, max(0, len(ops) // 2)), {"id": nops + 1, "op": "bulk", "i": r.choice(names), "n": nb,
                                                          "key": r.getrandbits(32)})
    if r.random() < 0.6:
        ops.append({"id": nops, "op": "dump", "i": r.choice(names)})
    return {"family": NAME, "seed": seed, "cfgs": cfgs, "ops": ops,
            "proc": {"set_key": None, "rand_seed": r.getrandbits(32), "urandom_key": r.getrandbits(32)}}


# ---------------------------------------------------------------------------
# execution
# ---------------------------------------------------------------------------
_small_cls = {}


def _build(proc, cfg):
    ipa = proc.ipa
    sfx = {} if cfg["suffix"] is None else {"preserve_suffix": cfg["suffix"]}
    if cfg["kind"] == "v4":
        return ipa.IpAnonymizer(cfg["salt"], copy.deepcopy(cfg["pp"]), copy.deepcopy(cfg["pa"]), **sfx)
    if cfg["kind"] == "v6":
        return ipa.IpV6Anonymizer(cfg["salt"], **sfx)
    base = getattr(ipa, "_BaseIpAnonymizer", None)
    if base is None:
        raise _SmallUnavailable()
    cls = _small_cls.get(id(ipa))
    if cls is None or cls[0] is not ipa:
        class Small(base):
            def __init__(self, salt, width, **kw):
                super(Small, self).__init__(salt, width, **kw)

            @classmethod
            def get_addr_pattern(cls):
                return re.compile(r"(?<![0-9])[0-9]+(?![0-9])")

            @classmethod
            def make_addr(cls, s):
                return int(s)

            @classmethod
            def make_addr_from_int(cls, i):
                return i

            def should_anonymize(self, i):
                return True

        _small_cls.clear()
        _small_cls[id(ipa)] = cls = (ipa, Small)
    try:
        return cls[1](cfg["salt"], cfg["width"], **sfx)
    except TypeError:
        raise _SmallUnavailable()


class _SmallUnavailable(Exception):
    pass


def _parse_dump(text, kind):
    pairs = []
    bad = []
    for ln in text.split("\n"):
        if ln == "":
            continue
        parts = ln.split("\t")
        if len(parts) != 2:
            bad.append(ln)
            continue
        try:
            if kind == "small":
                pairs.append((int(parts[0]), int(parts[1])))
            else:
                pairs.append((int(ipaddress.ip_address(parts[0])), int(ipaddress.ip_address(parts[1]))))
        except ValueError:
            bad.append(ln)
    return pairs, bad


def check(plan):
    V = []
    probes = {"inv_met_fwd": 0, "fwd_met_inv": 0, "cold_undo": 0, "restart": 0, "dump": 0, "dump_pairs": 0,
              "fork": 0, "warm_raises": 0, "memo_entries_checked": 0, "text": 0, "small_unavailable": 0,
              "both_raise": 0}
    cfgs = plan["cfgs"]
    pk = plan.get("proc", {})
    twin = SimProcess(dict(pk))
    procs = [SimProcess(dict(pk))]
    cur = [None]

    def activate(p):
        if cur[0] is p:
            return
        if cur[0] is not None:
            cur[0].__exit__(None, None, None)
        cur[0] = p
        if p is not None:
            p.__enter__()

    cold_memo = {}

    def cold(ci, direction, x):
        """Answer of a brand-new anonymizer in the twin process asked only this question."""
        k = (ci, direction, x)
        if k in cold_memo:
            return cold_memo[k]
        activate(twin)
        try:
            a = _build(twin, cfgs[ci])
            if direction == "anon":
                out = ("ok", a.anonymize(x))
            elif direction == "deanon":
                out = ("ok", a.deanonymize(x))
            elif direction == "bits":
                out = ("ok", a._anonymize_bits(x))
            else:
                out = ("ok", twin.ipa.anonymize_ip_addr(a, x[0], x[1]))
        except _SmallUnavailable:
            raise
        except Exception as e:
            out = ("raise", type(e).__name__)
        cold_memo[k] = out
        return out

    fwd_twin = {}

    def fwd_bits(ci, k):
        """Forward-only twin (never sees an undo request); a mismatch is confirmed by a truly cold twin."""
        if ci not in fwd_twin:
            activate(twin)
            fwd_twin[ci] = _build(twin, cfgs[ci])
        try:
            return ("ok", fwd_twin[ci]._anonymize_bits(k))
        except Exception as e:
            return ("raise", type(e).__name__)

    inst = {}       # name -> dict(proc, a, ci, observed, origin)
    results = {}
    steps = 0
    sig = []
    nontriv = {"C02": False, "C03": False, "C17": False}
    digest_items = []

    def get_inst(name):
        if name not in inst:
            ci = 1 if name == "N" else 0
            p = procs[-1]
            activate(p)
            inst[name] = {"proc": p, "a": _build(p, cfgs[ci]), "ci": ci, "observed": {}, "origin": {},
                          "had": {"anon": False, "deanon": False}, "nreq": 0}
            c = getattr(inst[name]["a"], "cache", None)
            if c is not None:
                try:
                    for k in list(c.keys()):
                        inst[name]["origin"][k] = "seed"
                except Exception:
                    pass
        return inst[name]

    def memo_check(I, direction, op):
        """White-box cross-invariant: every new memo entry equals the cold definition."""
        a = I["a"]
        c = getattr(a, "cache", None)
        if c is None or not hasattr(a, "_anonymize_bits"):
            return 0
        cfg = cfgs[I["ci"]]
        w = cfg["width"]
        sfx = cfg["suffix"] or 0
        new = 0
        try:
            items = [(k, v) for k, v in c.items() if k not in I["origin"]]
        except Exception:
            return 0
        for k, v in items:
            I["origin"][k] = direction
            new += 1
            if not isinstance(k, str):
                continue
            probes["memo_entries_checked"] += 1
            if len(k) <= w - sfx:
                exp = fwd_bits(I["ci"], k)
                if exp[0] == "ok" and exp[1] != v:
                    exp = cold(I["ci"], "bits", k)
            elif len(k) == w:
                e = cold(I["ci"], "anon", int(k, 2))
                exp = ("ok", ("{:0%db}" % w).format(e[1])) if e[0] == "ok" else e
            else:
                continue
            if exp[0] == "ok" and exp[1] != v:
                V.append({"prop": "C03", "tag": "memo-entry",
                          "detail": "after op %s memo holds %s->%s, cold definition gives %s" % (op["id"], k, v, exp[1])})
        return new

    def met_depth(I, direction, x):
        a = I["a"]
        c = getattr(a, "cache", None)
        if c is None:
            return 0, None
        cfg = cfgs[I["ci"]]
        w = cfg["width"]
        sfx = cfg["suffix"] or 0
        bits = ("{:0%db}" % w).format(x)
        bits = bits[: w - sfx] if sfx else bits
        view = c if direction == "anon" else c.inv
        for L in range(len(bits), 0, -1):
            pre = bits[:L]
            if pre in view:
                key = pre if direction == "anon" else view[pre]
                return L, I["origin"].get(key)
        return 0, None

    try:
        for op in plan["ops"]:
            steps += 1
            kind = op["op"]
            if kind in ("anon", "deanon", "noise"):
                direction = op["dir"] if kind == "noise" else kind
                I = get_inst(op["i"])
                ci = I["ci"]
                x = op["x"]
                ref = op.get("ref")
                if ref is not None and ref in results and kind != "noise":
                    x = results[ref]
                x &= (1 << cfgs[ci]["width"]) - 1
                activate(I["proc"])
                L, origin = met_depth(I, direction, x)
                other = "deanon" if direction == "anon" else "anon"
                if origin == other and L >= (8 if cfgs[ci]["width"] >= 32 else 2):
                    probes["inv_met_fwd" if direction == "deanon" else "fwd_met_inv"] += 1
                    nontriv["C03"] = True
                try:
                    y = ("ok", getattr(I["a"], "anonymize" if direction == "anon" else "deanonymize")(x))
                except Exception as e:
                    y = ("raise", type(e).__name__ + ": " + str(e)[:80])
                I["nreq"] += 1
                new = memo_check(I, direction, op)
                sig.append("%s%s%d" % (direction[0], "r" if ref is not None else "", min(L // 8, 9)))
                yc = cold(ci, direction, x)
                digest_items.append((op["id"], y))
                if y[0] == "raise":
                    probes["warm_raises"] += 1
                    if yc[0] == "ok":
                        V.append({"prop": "C03", "tag": "raises",
                                  "detail": "op %s %s(%d) on %s raised %s; a fresh anonymizer answers %d" % (
                                      op["id"], direction, x, op["i"], y[1], yc[1])})
                    else:
                        probes["both_raise"] += 1
                    continue
                if yc[0] == "ok" and y[1] != yc[1]:
                    V.append({"prop": "C03", "tag": direction + "-differs",
                              "detail": "op %s %s(%d) on %s gave %d; a fresh anonymizer gives %d" % (
                                  op["id"], direction, x, op["i"], y[1], yc[1])})
                # C02: the other direction, cold, must lead back
                back = cold(ci, other, y[1])
                probes["cold_undo"] += 1
                if kind != "noise":
                    results[op["id"]] = y[1]
                    nontriv["C02"] = True if (ref is not None or I["nreq"] > 1) else nontriv["C02"]
                if back[0] == "ok" and back[1] != x:
                    V.append({"prop": "C02", "tag": "undo-cold" if direction == "anon" else "redo-cold",
                              "detail": "op %s: %s(%d)=%d on %s, but a fresh anonymizer's %s(%d)=%d" % (
                                  op["id"], direction, x, y[1], op["i"], other, y[1], back[1])})
                elif back[0] == "raise":
                    V.append({"prop": "C02", "tag": "undo-raises",
                              "detail": "op %s: %s(%d)=%d, fresh %s raised %s" % (op["id"], direction, x, y[1], other, back[1])})
                if direction == "anon":
                    I["observed"][x] = y[1]
            elif kind == "bulk":
                I = get_inst(op["i"])
                activate(I["proc"])
                br = random.Random(op["key"])
                w = cfgs[I["ci"]]["width"]
                probes["bulk_requests"] = probes.get("bulk_requests", 0) + op["n"]
                for _ in range(op["n"]):
                    x = br.getrandbits(w)
                    try:
                        I["a"].anonymize(x)
                    except Exception:
                        probes["warm_raises"] += 1
                        break
                I["nreq"] += op["n"]
                c = getattr(I["a"], "cache", None)
                if c is not None:
                    try:
                        probes["max_memo"] = max(probes.get("max_memo", 0), len(c))
                        for k in c.keys():
                            I["origin"].setdefault(k, "bulk")
                    except Exception:
                        pass
                sig.append("B%d" % (op["n"] // 1000))
                I["bulk"] = True
            elif kind == "text":
                I = get_inst(op["i"])
                if cfgs[I["ci"]]["kind"] == "small":
                    continue
                activate(I["proc"])
                probes["text"] += 1
                try:
                    y = ("ok", I["proc"].ipa.anonymize_ip_addr(I["a"], op["line"], op["undo"]))
                except Exception as e:
                    y = ("raise", type(e).__name__ + ": " + str(e)[:80])
                memo_check(I, "deanon" if op["undo"] else "anon", op)
                yc = cold(I["ci"], "text", (op["line"], op["undo"]))
                digest_items.append((op["id"], y))
                sig.append("t" + ("u" if op["undo"] else "f"))
                if y[0] == "raise" and yc[0] == "ok":
                    V.append({"prop": "C03", "tag": "raises",
                              "detail": "op %s text %r raised %s; fresh anonymizer gives %r" % (op["id"], op["line"], y[1], yc[1])})
                elif y[0] == "ok" and yc[0] == "ok" and y[1] != yc[1]:
                    V.append({"prop": "C03", "tag": "text-differs",
                              "detail": "op %s text %r undo=%s gave %r; fresh anonymizer gives %r" % (
                                  op["id"], op["line"], op["undo"], y[1], yc[1])})
                    if op["undo"]:
                        # an undo request answered with something other than the inverse mapping of its text
                        V.append({"prop": "C02", "tag": "undo-differs-live",
                                  "detail": "op %s undo of %r on a live instance gave %r; the inverse mapping (fresh process) is %r" % (
                                      op["id"], op["line"], y[1], yc[1])})
            elif kind == "dump":
                I = get_inst(op["i"])
                activate(I["proc"])
                probes["dump"] += 1
                buf = io.StringIO()
                try:
                    I["a"].dump_to_file(buf)
                except Exception as e:
                    V.append({"prop": "C17", "tag": "dump-raises", "detail": "op %s dump raised %r" % (op["id"], e)})
                    continue
                ck = cfgs[I["ci"]]["kind"]
                pairs, bad = _parse_dump(buf.getvalue(), ck)
                digest_items.append((op["id"], sorted(pairs)))
                probes["dump_pairs"] += len(pairs)
                sig.append("d%d" % min(len(pairs), 9))
                if bad:
                    V.append({"prop": "C17", "tag": "dump-malformed", "detail": "op %s: lines %r" % (op["id"], bad[:3])})
                d = {}
                imgs = {}
                for o, im in pairs:
                    if o in d:
                        V.append({"prop": "C17", "tag": "dump-dup-original", "detail": "op %s: original %d listed twice" % (op["id"], o)})
                    if im in imgs:
                        V.append({"prop": "C17", "tag": "dump-dup-image", "detail": "op %s: image %d listed twice" % (op["id"], im)})
                    d[o] = im
                    imgs[im] = o
                for o, im in sorted(I["observed"].items()):
                    if o not in d:
                        V.append({"prop": "C17", "tag": "dump-missing",
                                  "detail": "op %s: %d was replaced by %d on %s but is not in the dump" % (op["id"], o, im, op["i"])})
                    elif d[o] != im:
                        V.append({"prop": "C17", "tag": "dump-wrong-image",
                                  "detail": "op %s: %d was replaced by %d, dump says %d" % (op["id"], o, im, d[o])})
                sample = pairs if len(pairs) <= 80 else pairs[:40] + pairs[-40:]
                for o, im in sample:
                    e = cold(I["ci"], "anon", o)
                    if e[0] == "ok" and e[1] != im:
                        V.append({"prop": "C17", "tag": "dump-not-the-map",
                                  "detail": "op %s: dump lists %d->%d, the mapping function gives %d" % (op["id"], o, im, e[1])})
                if len(I["observed"]) >= 2 or I["had"]["deanon"]:
                    nontriv["C17"] = True
            elif kind == "restart":
                probes["restart"] += 1
                procs.append(SimProcess(dict(pk)))
                ci = 1 if op["i"] == "N" else 0
                inst.pop(op["i"], None)
                get_inst(op["i"])
                sig.append("R")
                nontriv["C02"] = True
            elif kind == "fork":
                if op["i"] in inst:
                    probes["fork"] += 1
                    src = inst[op["i"]]
                    clone = None
                    if op["id"] % 2:
                        try:
                            import pickle
                            clone = pickle.loads(pickle.dumps(src["a"]))
                            probes["fork_pickle"] = probes.get("fork_pickle", 0) + 1
                        except Exception:
                            clone = None
                    try:
                        repr(src["a"]), str(src["a"])
                    except Exception:
                        pass
                    inst[op["j"]] = {"proc": src["proc"], "a": clone if clone is not None else copy.deepcopy(src["a"]), "ci": src["ci"],
                                     "observed": dict(src["observed"]), "origin": dict(src["origin"]),
                                     "had": dict(src["had"]), "nreq": src["nreq"]}
                    sig.append("F")
            if kind in ("anon", "deanon"):
                inst[op["i"]]["had"][kind] = True
    except _SmallUnavailable:
        probes["small_unavailable"] += 1
    finally:
        activate(None)
    # de-duplicate identical (prop, tag) repeats, keep the first of each
    seen = set()
    out = []
    for v in V:
        k = (v["prop"], v["tag"])
        if k not in seen:
            seen.add(k)
            out.append(v)
    c0 = cfgs[0]
    sigs = "%s/s%s/p%s/a%s/" % (c0["kind"], c0["suffix"], "d" if c0["pp"] is None else len(c0["pp"]),
                                0 if not c0["pa"] else len(c0["pa"])) + "".join(sig)
    return {"violations": out, "digest": core.digest(digest_items), "sig": core.digest(sigs), "nontrivial": nontriv,
            "faults": {"restart(process)": probes["restart"]}, "probes": probes, "steps": steps,
            "sample": {"cfg": c0, "ops": [_short(o) for o in plan["ops"][:12]]}}


def _short(o):
    return " ".join("%s=%s" % (k, o[k]) for k in ("op", "i", "j", "x", "n", "ref", "line", "undo") if k in o)


# ---------------------------------------------------------------------------
# shrinking
# ---------------------------------------------------------------------------
def shrink_candidates(plan):
    ops = plan["ops"]
    for kept in core.drop_chunks(ops, 1):
        p = copy.deepcopy(plan)
        p["ops"] = copy.deepcopy(kept)
        yield p
    c0 = plan["cfgs"][0]
    for key, simple in (("pa", None), ("pp", None), ("suffix", None), ("salt", "s")):
        if c0[key] != simple:
            p = copy.deepcopy(plan)
            p["cfgs"][0][key] = simple
            yield p
    for key in ("pp", "pa"):
        if c0[key]:
            for kept in core.drop_chunks(c0[key], 0):
                p = copy.deepcopy(plan)
                p["cfgs"][0][key] = list(kept)
                yield p
    for n, op in enumerate(ops):
        if op["op"] == "bulk" and op["n"] > 50:
            for m in (op["n"] // 2, op["n"] - max(1, op["n"] // 10)):
                p = copy.deepcopy(plan)
                p["ops"][n]["n"] = m
                yield p
        if "ref" in op:
            p = copy.deepcopy(plan)
            del p["ops"][n]["ref"]
            yield p
        if op.get("i") not in (None, "A", "N"):
            p = copy.deepcopy(plan)
            p["ops"][n]["i"] = "A"
            yield p
