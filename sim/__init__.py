"""Deterministic simulation of netconan deployments (see /verif/DESIGN.md)."""
