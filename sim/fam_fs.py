"""Family `fs`: one tree, one netconan run through any entry point, listing orders, storage faults.

Feeds C16 (mapping, inputs untouched, isolation, reporting, entry-point agreement), C12 (structure,
prefix-only loss under write faults / crashes) and C17 (dump after a multi-file run with failures).
"""
import copy
import ipaddress
import posixpath
import random
import re

from . import core
from . import gen_common as GC
from . import grammar as G
from . import world as W

NAME = "fs"

READ_FAULTS = ("undecodable", "vanish", "eacces_in", "eio_read")
PRE_FAULTS = ("out_is_dir", "out_parent_is_file", "mkdir_eacces", "eacces_out")
WRITE_FAULTS = ("enospc", "eio_write", "eio_close", "io_write_fail")
OTHER_FAULTS = ("mkdir_race", "crash", "interrupt", "scandir_eacces", "dump_enospc")


# ---------------------------------------------------------------------------
# generation
# ---------------------------------------------------------------------------
def generate(seed, tier="quick", faults=True, light=False, **kw):
    r = random.Random(seed)
    entry = r.choices(["cli", "files", "file", "io"], [40, 30, 18, 12])[0]
    single = r.random() < 0.12
    o = GC.gen_opts(r, cli_safe=(entry == "cli"), j9=True)
    nsec = r.randint(1, 5)
    if r.random() < 0.5 or o["words"] is None and False:
        pass
    want_words = r.random() < 0.4
    if want_words:
        GC.add_words(r, o)
    secrets = GC.gen_secrets(r, nsec, words=o["words"] or ())
    if r.random() < 0.15:
        o["reserved"] = [r.choice(["zebra", "qux", "Xyzzy1"])]
    ctx = GC.make_ctx(r, o)
    nfiles = 1 if single else (r.randint(20, 40) if (r.random() < 0.02 and not light) else r.randint(1, 8))
    paths, dirs, hidden = GC.gen_tree(r, nfiles, hidden=not single, dirs=not single)
    if single and r.random() < 0.25:
        # a file that is named explicitly is processed whatever its name looks like (the dot-file rule is about directory walks)
        paths = [posixpath.join(posixpath.dirname(paths[0]), r.choice([".running-config", ".hidden.cfg", "..cfg"]))]
    files = []
    for p in paths:
        files.append({"path": p, "lines": GC.gen_lines(r, ctx, secrets, o, r.randint(0, 14) if nfiles <= 8 else r.randint(0, 3), long_ok=not light)})
        if o["ip"] and r.random() < 0.25:
            files[-1]["lines"].insert(r.randint(0, len(files[-1]["lines"])), GC.directed_line(r))
        if o["ip"] and ctx["a4"] and r.random() < 0.12:
            # an IPv6 address whose integer value equals that of an IPv4 address of the same tree
            v = r.choice(ctx["a4"])
            files[-1]["lines"].insert(r.randint(0, len(files[-1]["lines"])),
                                      {"segs": [["lit", "ipv6 route "], ["a6", "::%x:%x" % (v >> 16, v & 0xFFFF), {"v": v}], ["lit", " via "],
                                                ["a4", G.tok4(r, v, zeros=False), {"v": v}]], "eol": "\n"})
        if o["ip"] and r.random() < 0.15:
            # an IPv6 token with a dotted-quad tail: how it is tokenised is C06's (not applicable) subject; here it only
            # has to be the same in every execution and must not put addresses into the map that no input contains
            tok = r.choice(["64:ff9b::", "::ffff:", "2001:db8::", "2001:db8:a:b::"]) + "%d.%d.%d.%d" % (
                r.choice([23, 100, 198, 203]), r.randint(0, 255), r.randint(0, 255), r.randint(1, 254))
            files[-1]["lines"].insert(r.randint(0, len(files[-1]["lines"])),
                                      {"segs": [["lit", "ipv6 route "], ["x6", tok], ["lit", " null0"]], "eol": "\n"})
    if files and r.random() < 0.06:
        # a file that starts with a UTF-8 byte order mark (written by Windows tooling): every entry point must treat it alike
        r.choice(files)["lines"].insert(0, G.lit_line("\ufeff! exported 12 34"))
    for p in hidden:
        files.append({"path": p, "lines": GC.gen_lines(r, ctx, secrets, o, r.randint(1, 3), long_ok=not light), "hidden": True})
    xdisk = {"dirs": list(dirs), "files": {}}
    in_rel = paths[0] if single else "in"
    out_rel = "out/result.cfg" if single else r.choice(["out", "out", "out/nested/deeper", "res dir"])
    dump = None
    if o["ip"] and r.random() < 0.6:
        dump = r.choice(["map", "maps/ip.map"] + ([posixpath.join(out_rel, "ip-map.txt")] if not single else []))
        if "/" in dump:
            xdisk["dirs"].append(posixpath.dirname(dump))     # the map file's directory always exists beforehand
    # pre-existing output tree
    if r.random() < 0.35:
        xdisk["dirs"].append(posixpath.dirname(out_rel) if single else out_rel)
        if not single and r.random() < 0.7:
            xdisk["files"][posixpath.join(out_rel, "stale.old")] = "stale content\n"
        if paths and r.random() < 0.5:
            victim = r.choice(paths)
            # (str contents are written as Latin-1 bytes: the second and third variants are not decodable as UTF-8)
            xdisk["files"][W.mirror(in_rel, out_rel, victim) if not single else out_rel] = r.choice([
                "OLD VERSION that is longer than new\n" * 3, "OLD VERSION that is longer than new\n" * 3,
                "OLD VERSION torn inside a character \xe2\x82", "\xff\xfe binary left-over\n"])
    elif single and r.random() < 0.5:
        xdisk["dirs"].append(posixpath.dirname(out_rel))
    knobs = GC.gen_knobs(r)
    plan = {"family": NAME, "seed": seed, "files": files, "secrets": secrets, "xdisk": xdisk, "opts": o,
            "entry": entry, "in": in_rel, "out": out_rel, "dump": dump, "knobs": knobs, "faults": [],
            "baseline": r.random() < 0.5}
    if not single and entry in ("cli", "files"):
        # the directory arguments spelled with a trailing slash or "/."
        plan["in_suffix"] = r.choice(["", "", "", "/", "/."])
        plan["out_suffix"] = r.choice(["", "", "", "/"])
    if entry in ("cli", "files") and not plan.get("out_suffix") and r.random() < 0.12:
        # the output location given relative to the working directory (a bare name, or ./name)
        plan["rel_out"] = r.choice(["bare", "dot"])
    if dump and r.random() < 0.3:
        xdisk["files"][dump] = "0.0.0.0\tstale map line from an earlier run\n" * r.randint(1, 60)
        if r.random() < 0.5:
            # ... or a well-formed map of this tree's own addresses, left by a run under another salt (perhaps interrupted)
            xdisk["files"][dump] = GC.stale_map(files, r.getrandbits(30), r.choice([0, 0, 1, 3, 7])) or xdisk["files"][dump]
    if dump and r.random() < 0.15:
        # left-overs with temporary-file names next to the map (an interrupted run of a tool that writes via a temporary name)
        if r.random() < 0.5:
            xdisk["dirs"].append(dump + ".tmp")
        else:
            xdisk["files"][dump + r.choice([".tmp", ".part", "~"])] = "left-over\n"
    if r.random() < 0.08 and not single and not light:
        plan["pre_same_run"] = True        # library use: this process has already anonymized the same tree once, elsewhere
    if dump and len(files) >= 2 and r.random() < 0.04 and not light:
        # one file with several hundred distinct IPv6 addresses (memo growth), never the last one
        big = files[0]
        if big["lines"] and big["lines"][-1].get("eol", "\n") == "":
            big["lines"][-1]["eol"] = "\n"
        for _ in range(64):
            big["lines"].append({"segs": [["lit", " permit ipv6"]] + [x for _ in range(16) for x in (
                ["lit", " "], ["a6", "", None])], "eol": "\n"})
        for ln in big["lines"]:
            for sg in ln["segs"]:
                if sg[0] == "a6" and sg[2] is None:
                    v = (0x20010DB8 << 96) | r.getrandbits(96)
                    sg[1], sg[2] = str(ipaddress.IPv6Address(v)), {"v": v}
    if entry in ("file", "io") and single and posixpath.dirname(out_rel) not in xdisk["dirs"]:
        xdisk["dirs"].append(posixpath.dirname(out_rel))
    if faults:
        _gen_faults(r, plan, paths, in_rel, out_rel, single)
    return plan


def _gen_faults(r, plan, paths, in_rel, out_rel, single):
    nf = r.choices([0, 1, 2, 3], [15, 50, 28, 7])[0]
    entry = plan["entry"]
    if entry == "io":
        kinds = ["undecodable", "io_write_fail", "io_write_fail"]
    elif entry == "file":
        kinds = ["undecodable", "out_is_dir", "vanish", "eacces_in", "eio_read", "enospc", "eio_write", "eio_close",
                 "eacces_out"]
    else:
        kinds = list(READ_FAULTS + PRE_FAULTS + WRITE_FAULTS + OTHER_FAULTS)
    weights = {"undecodable": 6, "out_is_dir": 5, "crash": 4, "enospc": 4, "eio_read": 3}
    # bias: the first file introducing shared secrets, the middle, the last
    for _ in range(nf):
        kind = r.choices(kinds, [weights.get(k, 2) for k in kinds])[0]
        victim = r.choice(paths) if r.random() < 0.6 else (paths[0] if r.random() < 0.5 else paths[-1])
        mp = out_rel if single else W.mirror(in_rel, out_rel, victim)
        f = None
        if kind == "undecodable":
            fl = next(x for x in plan["files"] if x["path"] == victim)
            pos = len(fl["lines"]) if r.random() < 0.5 else r.randint(0, len(fl["lines"]))
            fl["lines"].insert(pos, {"segs": [["lit", "bad "], ["bad", r.choice(["\xff", "\xc3\x28", "\xe2\x82", "\xf8\x88"])],
                                              ["lit", " tail"]], "eol": "\n"})
            plan["faults"].append({"kind": "undecodable", "path": victim})
            continue
        if kind == "out_is_dir":
            if any(k == mp or mp.startswith(k + "/") for k in plan["xdisk"]["files"]):
                plan["xdisk"]["files"] = {k: v for k, v in plan["xdisk"]["files"].items()
                                          if not (k == mp or mp.startswith(k + "/"))}
            plan["xdisk"]["dirs"].append(mp)
            f = {"kind": "out_is_dir", "path": victim}
            if r.random() < 0.3:
                plan["xdisk"]["files"][posixpath.join(mp, "inner.txt")] = "inner\n"
        elif kind == "out_parent_is_file":
            par = posixpath.dirname(mp)
            if single or par == out_rel.rstrip("/") or par in ("", "out"):
                continue
            if any(d == par or d.startswith(par + "/") for d in plan["xdisk"]["dirs"]) or \
                    any(k.startswith(par + "/") for k in plan["xdisk"]["files"]):
                continue
            if any(W.mirror(in_rel, out_rel, q) == par for q in paths):
                continue
            plan["xdisk"]["files"][par] = "i am a file\n"
            f = {"kind": "out_parent_is_file", "path": victim, "blocker": par}
        elif kind == "vanish":
            f = {"kind": "vanish", "path": victim, "mode": "r", "nth": 1}
        elif kind == "eacces_in":
            f = {"kind": "eacces", "path": victim, "mode": "r", "nth": 1}
        elif kind == "eacces_out":
            f = {"kind": "eacces", "path": mp, "mode": "w", "nth": 1, "victim": victim}
        elif kind == "eio_read":
            f = {"kind": "eio_read", "path": victim, "at": r.choice([0, 1, r.randint(0, 400), r.randint(0, 60)])}
        elif kind == "io_write_fail":
            f = {"kind": "io_write_fail", "path": victim, "nth": r.randint(0, 8)}
        elif kind in ("enospc", "eio_write"):
            f = {"kind": kind, "path": mp, "at": r.choice([0, 1, r.randint(0, 400), r.randint(0, 80)]), "victim": victim}
        elif kind == "eio_close":
            f = {"kind": "eio_close", "path": mp, "victim": victim}
        elif kind in ("mkdir_race", "mkdir_eacces"):
            par = posixpath.dirname(mp)
            if not par:
                continue
            f = {"kind": kind, "path": par, "victim": victim}
        elif kind in ("crash", "interrupt"):
            f = {"kind": kind, "at": r.randint(1, 30 + 25 * len(paths))}
        elif kind == "scandir_eacces":
            ds = sorted({posixpath.dirname(p) for p in paths if posixpath.dirname(p) != "in"})
            if not ds:
                continue
            f = {"kind": "scandir_eacces", "path": r.choice(ds)}
        elif kind == "dump_enospc":
            if not plan["dump"]:
                continue
            f = {"kind": "enospc", "path": plan["dump"], "at": r.randint(0, 40), "dump": True}
        if f is not None:
            plan["faults"].append(f)
    # a blocker file in the output tree wins over anything generated below it
    for f in plan["faults"]:
        if f["kind"] == "out_parent_is_file":
            b = f["blocker"]
            plan["xdisk"]["dirs"] = [d for d in plan["xdisk"]["dirs"] if not (d == b or d.startswith(b + "/"))]
            plan["xdisk"]["files"] = {k: v for k, v in plan["xdisk"]["files"].items() if not k.startswith(b + "/")}
    for d in list(plan["xdisk"]["dirs"]):
        if d in plan["xdisk"]["files"]:
            del plan["xdisk"]["files"][d]


# ---------------------------------------------------------------------------
# execution and oracles
# ---------------------------------------------------------------------------
def build_world(plan, drop=()):
    disk = {"dirs": list(plan["xdisk"]["dirs"]), "files": {}}
    for f in plan["files"]:
        if f["path"] in drop:
            continue
        disk["files"][f["path"]] = G.render_file(f["lines"], "a", plan["secrets"])
    for p, t in plan["xdisk"]["files"].items():
        disk["files"][p] = t.encode("latin-1") if isinstance(t, str) else t
    step = {"entry": plan["entry"], "opts": plan["opts"], "in": plan["in"], "out": plan["out"], "dump": plan["dump"],
            "in_suffix": plan.get("in_suffix", ""), "out_suffix": plan.get("out_suffix", ""), "rel_out": plan.get("rel_out")}
    sysfaults = [f for f in plan["faults"] if f["kind"] not in ("undecodable", "out_is_dir", "out_parent_is_file")]
    pre = []
    if plan.get("pre_same_run") and not any(f["kind"] in ("crash", "interrupt") for f in sysfaults):
        # ... either the same tree, or its lines in reverse order (other first-seen order of every secret and address)
        pre_in = plan["in"]
        if plan["knobs"].get("pid", 0) % 3 != 0:
            rev = []
            for f in reversed([f for f in plan["files"] if f["path"] not in drop and not f.get("hidden")]):
                rev.extend(reversed([ln for ln in f["lines"] if not any(sg[0] == "bad" for sg in ln["segs"])]))
            disk["files"]["other/pre-in/all.cfg"] = G.render_file([dict(ln, eol="\n") for ln in rev], "a", plan["secrets"])
            pre_in = "other/pre-in"
        pre = [{"kind": "run", "step": {"entry": ("files" if plan["knobs"].get("pid", 0) % 2 else "io"), "opts": plan["opts"],
                                        "in": pre_in, "out": "other/pre-out", "dump": None}}]
    return {"disk": disk, "procs": [{"knobs": plan["knobs"], "faults": sysfaults, "pre": pre, "steps": [step]}]}


def _ancestors(p):
    out = set()
    while p and p != "/":
        p = posixpath.dirname(p)
        if p:
            out.add(p)
    return out


def _input_order_from_trace(trace, in_rel, after=0):
    order = []
    for seq, op, path, extra in trace:
        if seq <= after:
            continue
        if op == "open" and extra == "r" and (path == in_rel or path.startswith(in_rel + "/")):
            q = posixpath.normpath(path)
            if q not in order:
                order.append(q)
    return order


def _nlines(text):
    return len(text.split("\n")) - 1 + (0 if text.endswith("\n") or text == "" else 1)


def _first_lines(text, n):
    parts = text.split("\n")
    lines = [x + "\n" for x in parts[:-1]] + ([parts[-1]] if parts[-1] else [])
    return "".join(lines[:n])


def _named(logs, level, abs_path):
    """Is the file named in a record at WARNING or above?  (`level` kept for readability: the property
    says "reported", it does not fix the level.)"""
    for lv, msg, tb in logs:
        if lv in ("WARNING", "ERROR", "CRITICAL") and abs_path in W.norm_paths(msg):
            return True
    return False


def check(plan):
    V = []

    def viol(prop, tag, detail, key=None):
        V.append({"prop": prop, "tag": tag, "detail": detail, "key": key})

    plan = dict(plan, files=GC.resolve_directed(plan["files"], plan["opts"], plan["knobs"]))
    probes = {"fault_inside_file": 0, "late_write_fault": 0, "failed_with_progress": 0, "failed_no_progress": 0,
              "baseline_runs": 0, "progress_search": 0, "dump_checked": 0, "crash_after_first_write": 0,
              "files_completed": 0, "stale_present": 0, "hidden_present": 0, "prefix_checked": 0, "entry_" + plan["entry"]: 1}
    world = build_world(plan)
    H = W.run_world(world)
    h = H["procs"][0]
    S0, S1 = H["initial"], h["snap"]
    entry = plan["entry"]
    probes["cli_options_from_config_file"] = int(entry == "cli" and bool(plan["knobs"].get("cli_style", 0) & 8))
    probes["root_logger_debug"] = int(plan["knobs"].get("log_level") == "DEBUG")
    probes["leftover_map_of_own_addresses"] = int(bool(plan["dump"]) and "\t" in str(plan["xdisk"]["files"].get(plan["dump"], ""))
                                                  and not str(plan["xdisk"]["files"].get(plan["dump"], "")).startswith("0.0.0.0"))
    probes["leftover_output_undecodable"] = int(any("\xff" in str(v) or "\xe2\x82" in str(v) for v in plan["xdisk"]["files"].values()))
    in_rel, out_rel, dump = plan["in"], plan["out"], plan["dump"]
    single = in_rel in S0["files"]
    o = plan["opts"]
    inputs = sorted(p for p in S0["files"] if p == in_rel or p.startswith(in_rel + "/"))
    visible = [p for p in inputs if single or not posixpath.basename(p).startswith(".")]
    # an unlistable sub-directory hides its files from the run (os.walk drops it silently): observation only, DESIGN §8
    unlistable = [f["path"] for f in h["faults"] if f["kind"] == "scandir_eacces" and f.get("fired")]
    probes["unlistable_dirs"] = len(unlistable)
    all_visible = list(visible)
    visible = [p for p in visible if not any(p.startswith(d + "/") for d in unlistable)]
    probes["hidden_present"] = len(inputs) - len(visible)
    mirror = {p: (out_rel if single else W.mirror(in_rel, out_rel, p)) for p in all_visible}
    fired = {}
    for f in h["faults"]:
        if f.get("fired"):
            fired[f["kind"]] = fired.get(f["kind"], 0) + f["fired"]
    for f in plan["faults"]:
        if f["kind"] in ("undecodable", "out_is_dir", "out_parent_is_file"):
            fired[f["kind"]] = fired.get(f["kind"], 0) + 1
    vanished = {f["path"] for f in h["faults"] if f["kind"] == "vanish" and f.get("fired")}
    step = h["steps"][0] if h["steps"] else {"outcome": "none", "failed_files": {}}
    finished = h["outcome"] == "ok" and step["outcome"] == "ok"

    # ---- oracle 1: instant invariants (hold at every crash point) -------------
    allowed = set(mirror.values())
    for m in list(allowed):
        allowed |= _ancestors(m)
    if dump:
        allowed.add(dump)
    pre_n = h.get("pre_nsys", 0)
    for seq, op, path in h["mutations"]:
        if seq <= pre_n:
            continue
        q = posixpath.normpath(path)
        if q == in_rel or q.startswith("in/") or q == "in":
            viol("C16", "input-touched", "syscall %d: %s on input path %r" % (seq, op, path))
        elif q not in allowed:
            # judged on what exists when the run ends or is killed (stray-file / stray-dir below): a scratch
            # file that is renamed onto its mirror path is invisible unless the process dies in between
            probes["transient_stray_mutations"] = probes.get("transient_stray_mutations", 0) + 1
    for p in inputs:
        if p in vanished:
            continue
        if S1["files"].get(p) != S0["files"][p]:
            viol("C16", "input-changed", "input file %r differs after the run" % p)
    for p, data in S1["files"].items():
        if p.startswith("other/"):
            continue          # output of the earlier run in the same process (pre-history)
        if p not in S0["files"] and p not in allowed:
            viol("C16", "stray-file", "file %r was created; it mirrors no visible input file" % p)
    for d in S1["dirs"]:
        if d == "other" or d.startswith("other/"):
            continue
        if d not in S0["dirs"] and d not in allowed:
            viol("C16", "stray-dir", "directory %r was created" % d)
    for p, data in S0["files"].items():
        if p in inputs:
            continue
        if p not in allowed:
            probes["stale_present"] += 1
            if S1["files"].get(p) != data:
                viol("C16", "stale-changed", "pre-existing file %r outside the mirror set was changed or removed" % p)
    for d in S0["dirs"]:
        if d not in S1["dirs"]:
            viol("C16", "dir-removed", "pre-existing directory %r was removed" % d)

    no_features = not W.any_feature(o)
    # a run that was rejected up front (before any file was opened or anything written) makes no
    # further claim; an exception that escapes later is the run aborting on a file
    raised = step["outcome"].startswith("raised") or step["outcome"].startswith("exit")
    pre_n0 = h.get("pre_nsys", 0)
    touched = any(sq > pre_n0 for sq, o_, p_ in h["mutations"]) or any(op == "open" and s_ > pre_n0 for s_, op, p_, e_ in h["trace"])
    dump_fault_fired = any(f.get("dump") and f.get("fired") for f in h["faults"])
    rejected = raised and not touched
    if rejected:
        probes["rejected_up_front"] = 1
    if raised and touched and not dump_fault_fired and entry in ("cli", "files"):
        viol("C16", "run-aborted", "entry %s: the run ended with %s after it had started on the files (faults %s)" % (
            entry, step["outcome"], [f["kind"] for f in plan["faults"]]))
    if raised:
        finished = False
    # ---- processing order and progress ----------------------------------------
    if entry in ("cli", "files"):
        order = [p for p in _input_order_from_trace(h["trace"], in_rel, h.get("pre_nsys", 0)) if p in mirror]
    elif entry == "file":
        opened = set(_input_order_from_trace(h["trace"], in_rel, h.get("pre_nsys", 0)))
        order = [p for p in (step.get("order") or []) if p in mirror and p in opened]
    else:
        order = [p for p in (step.get("order") or []) if p in mirror]
    texts = {}
    ptexts = {}
    for p in visible:
        try:
            texts[p] = W._decode_universal(S0["files"][p])
        except UnicodeDecodeError as e:
            texts[p] = None
            # a lazily reading implementation may consume the decodable lines before the bad bytes
            ptexts[p] = W._decode_universal(S0["files"][p][: e.start])
    handed = h["handed"]
    status = {}        # p -> "complete" | "failed"
    reported = {}
    for p in visible:
        if entry in ("cli", "files"):
            reported[p] = _named(h["logs"], "ERROR", "/simfs/" + p)
        else:
            reported[p] = p in step.get("failed_files", {})

    if not rejected and not no_features:
        # ---- oracle 3: stream twin fed the recorded line history ---------------
        def twin_outputs(progress):
            pieces = []
            for p in order:
                t = texts[p]
                if t is None:
                    pieces.append(_first_lines(ptexts[p], progress.get(p, 0)))
                elif p in progress:
                    pieces.append(_first_lines(t, progress[p]))
                else:
                    pieces.append(t)
            outs = W.stream_twin(plan["knobs"], o, pieces)
            return dict(zip(order, outs))

        faulted = set()
        fired_sys = [f for f in h["faults"] if f.get("fired")] + [f for f in plan["faults"] if f["kind"] in (
            "undecodable", "out_is_dir", "out_parent_is_file")]
        for f in fired_sys:
            if f["kind"] in ("crash", "interrupt", "scandir_eacces", "mkdir_race"):
                continue
            if f.get("dump"):
                continue
            v = f.get("victim") or f.get("path")
            if f["kind"] in ("mkdir_eacces",):
                # every file below that directory that was tried while the fault was armed
                v = f.get("victim")
            if v in mirror and v in visible:
                faulted.add(v)
        # files whose processing visibly failed (by observation, not by fault kind)
        progress = {}
        for p in visible:
            mp = mirror[p]
            if reported[p] or p not in order or texts[p] is None:
                progress[p] = _nlines(handed.get(mp, "")) if p in order else 0
        # the failure kinds the property names (undecodable bytes, output path occupied) must not change any
        # other file at all: such a file contributes nothing to the reference, however the implementation reads
        strict = set()
        for f in plan["faults"]:
            if f["kind"] in ("undecodable", "out_is_dir", "out_parent_is_file") and f["path"] in progress:
                v = f["path"]
                if not any((g.get("victim") or g.get("path")) == v for g in h["faults"] if g.get("fired")):
                    strict.add(v)
        if finished:
            for v in strict:
                if progress[v] > 0:
                    probes["named_fault_with_progress"] = probes.get("named_fault_with_progress", 0) + 1
                progress[v] = 0
        # in a crashed/interrupted/aborted run the file in flight (the last one opened) is partial
        if not finished and order:
            p = order[-1]
            if p not in progress:
                progress[p] = _nlines(handed.get(mirror[p], ""))
        exp = twin_outputs(progress)

        def mismatches(exp):
            bad = []
            for p in order:
                if p in progress:
                    continue
                mp = mirror[p]
                got = S1["files"].get(mp)
                if exp.get(p) is None:
                    continue
                if got is None or got != exp[p].encode("utf-8"):
                    bad.append(p)
            return bad

        bad = mismatches(exp)
        if bad and progress and finished:
            # the recorder may under-report progress for implementations that batch their writes;
            # search for a progress assignment that explains every other file (sound: exists-n)
            probes["progress_search"] += 1
            cands = [p for p in progress if p in order and p not in strict]
            tried = 0
            for p in cands:
                total = _nlines(texts[p] if texts[p] is not None else ptexts[p])
                for n in range(total, -1, -1):
                    if n == progress[p]:
                        continue
                    tried += 1
                    if tried > 60:
                        break
                    alt = dict(progress)
                    alt[p] = n
                    e2 = twin_outputs(alt)
                    if not mismatches(e2):
                        exp, bad = e2, []
                        break
                if not bad or tried > 60:
                    break
        for p in bad:
            mp = mirror[p]
            got = S1["files"].get(mp)
            failed_others = sorted(q for q in progress if q != p)
            tag = "isolation" if failed_others and finished else "content-differs"
            viol("C16", tag if finished else "content-differs-after-crash",
                 "entry %s: output %r %s; expected the stream API's result for the recorded line history%s" % (
                     entry, mp, "is missing" if got is None else "differs (%r... vs %r...)" % (_diffat(got, exp[p].encode("utf-8"))),
                     (" (files that failed in this run: %s)" % failed_others) if failed_others else ""))
        # ---- per-file verdicts ------------------------------------------------
        for p in visible:
            mp = mirror[p]
            got = S1["files"].get(mp)
            if p in progress:
                status[p] = "failed"
                if progress[p] > 0:
                    probes["failed_with_progress"] += 1
                    if texts[p] is not None and progress[p] >= _nlines(texts[p]):
                        probes["late_write_fault"] += 1      # the failure surfaced at flush/close, after every line was handed
                else:
                    probes["failed_no_progress"] += 1
                # oracle 6: absent, empty or a byte-prefix of what was handed to the writer,
                # which itself must be the twin's output for the consumed lines
                if got is not None and p in order and exp.get(p) is not None:
                    probes["prefix_checked"] += 1
                    want = exp[p].encode("utf-8")
                    hd = handed.get(mp, "").encode("utf-8")
                    pre_existing = S0["files"].get(mp)
                    if not want.startswith(got) and not hd.startswith(got):
                        if pre_existing is not None and got == pre_existing:
                            pass        # never opened for writing: the older version is still there
                        else:
                            viol("C12", "partial-output-not-a-prefix",
                                 "failed file %r left %r..., not a prefix of its fault-free output %r..." % (
                                     mp, got[:60], want[:60]))
            else:
                status[p] = "complete" if p in order else "missing"
                if status[p] == "complete":
                    probes["files_completed"] += 1
        if finished:
            # ---- oracle 2: mapping ----------------------------------------------
            for p in visible:
                if p not in order and not reported[p]:
                    if any(f["kind"] == "scandir_eacces" for f in plan["faults"]):
                        continue      # unlistable sub-directory: observation only (DESIGN §8)
                    viol("C16", "missing-output", "visible input %r was neither processed nor reported" % p)
                elif status[p] == "complete" and mirror[p] not in S1["files"]:
                    viol("C16", "missing-output", "no output file for %r" % p)
            # ---- oracle 5: reporting ----------------------------------------------
            for p in visible:
                mp = mirror[p]
                if p in faulted and not reported[p]:
                    got = S1["files"].get(mp)
                    full = exp.get(p)
                    complete = got is not None and full is not None and p not in progress and got == full.encode("utf-8")
                    if not complete:
                        viol("C16", "unreported-failure", "file %r failed (faults %s) but was not reported" % (
                            p, [f["kind"] for f in plan["faults"] if (f.get("victim") or f.get("path")) == p]))
            # a file that CAN be processed yields its output: being reported needs a cause (an injected fault on that file,
            # undecodable bytes, or an output path that is occupied) - left-overs at the output path are not one
            if not any(f["kind"] in ("mkdir_eacces", "mkdir_race", "crash", "interrupt") or f.get("dump") for f in fired_sys):
                # (a record is attributed to the longest input path it names: `in/x` is a substring of `in/d/simfs/in/x`)
                blamed = set()
                if entry in ("cli", "files"):
                    for lv, msg, tb in h["logs"]:
                        if lv in ("WARNING", "ERROR", "CRITICAL"):
                            cands = [q for q in inputs if "/simfs/" + q in W.norm_paths(msg)]
                            if cands:
                                blamed.add(max(cands, key=len))
                else:
                    blamed = {q for q in visible if reported[q]}
                hit = {posixpath.normpath(f.get("victim") or f.get("path") or "") for f in fired_sys}
                for p in visible:
                    mp = mirror[p]
                    if p not in blamed or p in faulted or texts[p] is None or mp in hit or p in hit:
                        continue
                    if mp in S0["dirs"] or any(a in S0["files"] for a in _ancestors(mp)):
                        continue
                    viol("C16", "failed-without-cause", "file %r was reported as failed although nothing stands in its way "
                         "(faults fired: %s; left-over at its output path: %r)" % (
                             p, [(f["kind"], f.get("victim") or f.get("path")) for f in fired_sys], (S0["files"].get(mp) or b"")[:30] or None))
            if dump and o["ip"] and not any(f.get("dump") and f.get("fired") for f in h["faults"]):
                if dump not in S1["files"]:
                    viol("C16", "dump-missing", "the run finished but the map file %r was not written" % dump)
            # ---- oracle 4: isolation against a real baseline run -------------------
            nop = [p for p in progress if progress[p] == 0]
            if plan.get("baseline") and nop and entry in ("cli", "files") and len(nop) == len(progress):
                remaining = [p for p in visible if p not in nop]
                if remaining and not single:
                    probes["baseline_runs"] += 1
                    base = copy.deepcopy(plan)
                    base["faults"] = [f for f in plan["faults"] if (f.get("victim") or f.get("path")) not in nop
                                      and f["kind"] in ("mkdir_race", "scandir_eacces")]
                    bw = build_world(base, drop=set(nop))
                    for f in plan["faults"]:
                        # blockers belong to the failing files: remove them from the baseline disk
                        if f["kind"] == "out_is_dir" and f["path"] in nop:
                            mpv = mirror[f["path"]]
                            bw["disk"]["dirs"] = [d for d in bw["disk"]["dirs"] if not (d == mpv or d.startswith(mpv + "/"))]
                            bw["disk"]["files"] = {k: v for k, v in bw["disk"]["files"].items() if not k.startswith(mpv + "/")}
                        if f["kind"] == "out_parent_is_file" and f["path"] in nop:
                            bw["disk"]["files"].pop(f["blocker"], None)
                    BH = W.run_world(bw)
                    bs = BH["procs"][0]["snap"]
                    for p in remaining:
                        mp = mirror[p]
                        if p in progress:
                            continue
                        if S1["files"].get(mp) != bs["files"].get(mp):
                            viol("C16", "isolation",
                                 "output %r differs from the run on the tree without the failing files %s" % (mp, sorted(nop)))
        # ---- C12: an input that is not valid UTF-8 but was processed anyway (not reported) must still keep its lines
        for p in visible:
            if texts[p] is None and not reported[p] and finished and p in order:
                got = S1["files"].get(mirror[p])
                if got is not None:
                    ni, no = S0["files"][p].count(b"\n"), got.count(b"\n")
                    if ni != no:
                        viol("C12", "line-count", "file %r (undecodable bytes, processed without being reported): %d input "
                             "lines, %d output lines" % (p, ni, no))
        # ---- C12 structure for completed files ------------------------------------
        for p in visible:
            if status.get(p) != "complete":
                continue
            got = S1["files"].get(mirror[p])
            if got is None or texts[p] is None:
                continue
            try:
                otext = got.decode("utf-8")
            except UnicodeDecodeError:
                viol("C12", "output-undecodable", "output %r is not valid UTF-8" % mirror[p])
                continue
            _structure(viol, p, texts[p], otext)
        # ---- C17: the dump against what was applied -------------------------------
        if dump and o["ip"] and dump in S1["files"] and finished and \
                not any(f.get("dump") and f.get("fired") for f in h["faults"]):
            probes["dump_checked"] += 1
            _check_dump(viol, plan, S1, mirror, visible, status, progress, texts, handed)
    if not finished:
        first_write = next((s for s, op, p, e in h["trace"] if op == "write"), None)
        cr = next((s for s, op, p, e in h["trace"] if op in ("crash", "interrupt")), None)
        if first_write is not None and cr is not None and cr > first_write:
            probes["crash_after_first_write"] += 1
    for k in ("enospc", "eio_write", "eio_close", "eio_read"):
        if fired.get(k):
            probes["fault_inside_file"] += 1
    organic = 0
    if entry in ("cli", "files") and finished:
        for p in visible:
            if reported[p] and p not in {(f.get("victim") or f.get("path")) for f in plan["faults"]}:
                organic += 1
    nfiles = len(visible)
    inside = any(fired.get(k) for k in READ_FAULTS + WRITE_FAULTS + ("out_is_dir", "out_parent_is_file", "eacces", "mkdir_eacces",
                                                                        "crash", "interrupt"))
    sig = core.digest([entry, nfiles, sorted(fired), [(op, posixpath.basename(p) if False else "") for s, op, p, e in h["trace"]][:0],
                       [op for s, op, p, e in h["trace"]], sorted((k, v) for k, v in status.items())])
    seen = set()
    out = []
    for v in V:
        k = (v["prop"], v["tag"])
        if k not in seen:
            seen.add(k)
            out.append(v)
    return {"violations": out, "digest": core.digest([W.public_hist(h)]), "sig": sig,
            "nontrivial": {"C16": nfiles >= 2 and inside, "C12": bool(probes["prefix_checked"]) or probes["files_completed"] >= 2,
                           "C17": bool(probes["dump_checked"]) and probes["files_completed"] >= 2},
            "faults": fired, "probes": probes, "steps": h["nsys"] + 1, "organic_failures": organic,
            "sample": {"entry": entry, "opts": {k: v for k, v in o.items() if v not in (None, False)},
                       "files": [f["path"] for f in plan["files"]], "faults": plan["faults"],
                       "knobs": {k: plan["knobs"][k] for k in ("listing_key", "bufsize", "max_write")}}}


def _diffat(a, b):
    n = 0
    while n < min(len(a), len(b)) and a[n] == b[n]:
        n += 1
    return a[max(0, n - 20):n + 30], b[max(0, n - 20):n + 30]


def _split_ws(line):
    body = line.rstrip()
    tail = line[len(body):]
    core_ = body.lstrip()
    lead = body[: len(body) - len(core_)]
    return lead, core_, tail


def _structure(viol, p, itext, otext):
    il = itext.split("\n")
    ol = otext.split("\n")
    if len(il) != len(ol):
        viol("C12", "line-count", "file %r: %d input lines, %d output lines" % (p, len(il), len(ol)))
        return
    for n, (a, b) in enumerate(zip(il, ol)):
        la, ca, ta = _split_ws(a)
        lb, cb, tb = _split_ws(b)
        if ca == "" and cb == "":
            if a != b:
                viol("C12", "blank-line-changed", "file %r line %d: %r became %r" % (p, n, a, b))
            continue
        if la != lb:
            viol("C12", "leading-ws", "file %r line %d: leading whitespace %r became %r" % (p, n, la, lb))
        if ta != tb:
            viol("C12", "trailing-ws", "file %r line %d: trailing whitespace/terminator %r became %r" % (p, n, ta, tb))


def _check_dump(viol, plan, S1, mirror, visible, status, progress, texts, handed):
    """C17: every generated address position replaced in a durable output is listed with that image."""
    dump = plan["dump"]
    try:
        lines = S1["files"][dump].decode("utf-8").split("\n")
    except UnicodeDecodeError:
        viol("C17", "dump-undecodable", "map file is not UTF-8")
        return
    d, imgs = {}, {}
    for ln in lines:
        if not ln:
            continue
        parts = ln.split("\t")
        try:
            a, b = ipaddress.ip_address(parts[0]), ipaddress.ip_address(parts[1])
            if len(parts) != 2:
                raise ValueError
        except (ValueError, IndexError):
            viol("C17", "dump-malformed", "map line %r" % ln)
            continue
        if a in d:
            viol("C17", "dump-dup-original", "original %s listed twice" % a)
        if b in imgs:
            viol("C17", "dump-dup-image", "image %s listed twice" % b)
        d[a] = b
        imgs[b] = a
    o = plan["opts"]
    # every listed original must occur in some input (in any spelling) or be a /32 seed (or its one-bit sibling)
    seen4, seen6 = set(), set()
    for pth, data in S1["files"].items():
        if not (pth == plan["in"] or pth.startswith("in/")):
            continue
        text = data.decode("utf-8", "replace")
        for m in re.finditer(r"[0-9]+(?:\.[0-9]+){3}", text):
            octs = [int(x) for x in m.group(0).split(".")]
            if all(x <= 255 for x in octs):
                seen4.add(ipaddress.IPv4Address(".".join(str(x) for x in octs)))
        for m in re.finditer(r"[0-9A-Fa-f:]*:[0-9A-Fa-f:]*", text):
            run = m.group(0)
            for cand in {run, run.rstrip(":"), run.lstrip(":")}:
                try:
                    seen6.add(ipaddress.IPv6Address(cand))
                except ValueError:
                    pass
    for n in (o.get("pp") or []) + (o.get("pa") or []):
        net = ipaddress.ip_network(n)
        if net.prefixlen == 32:
            seen4.add(net.network_address)
            seen4.add(ipaddress.IPv4Address(int(net.network_address) ^ 1))
    # the dotted-quad tail of an x6 token can leave a never-seen IPv4 token behind today (C06's defect): with such
    # tokens in the plan only the IPv6 originals are judged
    has_x6 = any(s[0] == "x6" for f in plan["files"] for ln in f["lines"] for s in ln["segs"])
    for a in sorted(d, key=str):
        if (a.version == 4 and not has_x6 and a not in seen4) or (a.version == 6 and a not in seen6):
            viol("C17", "dump-lists-unseen-address", "the map lists %s -> %s, but no input file contains %s" % (a, d[a], a))
            break
    lit_ws = o["pwd"] or bool(o["words"])
    files = {f["path"]: f for f in plan["files"]}
    for p in visible:
        mp = mirror[p]
        got = S1["files"].get(mp)
        if got is None or texts.get(p) is None:
            continue
        try:
            olines = got.decode("utf-8").split("\n")
        except UnicodeDecodeError:
            continue
        ilines = files[p]["lines"]
        # a partial output may end in a torn line: only terminated lines count there
        usable = len(olines) if status.get(p) == "complete" else len(olines) - 1
        # map generated lines to text lines (a CR/LF eol or a bad segment does not add lines here)
        for n, ln in enumerate(ilines):
            if n >= usable:
                break
            if not any(s[0] in ("a4", "a6") for s in ln["segs"]):
                continue
            if ln.get("kind") == "scrub" and o["pwd"]:
                continue
            toks = extract(ln, olines[n], plan["secrets"], lit_ws)
            if toks is None:
                continue
            for seg, tok in toks:
                if seg[0] not in ("a4", "a6"):
                    continue
                try:
                    img = ipaddress.ip_address(tok.split("/")[0])
                except ValueError:
                    continue
                orig = ipaddress.ip_address(seg[2]["v"]) if seg[0] == "a6" else ipaddress.IPv4Address(seg[2]["v"])
                if seg[0] == "a6":
                    orig = ipaddress.IPv6Address(seg[2]["v"])
                if img == orig and orig not in d:
                    continue          # not replaced (identity image is possible but then it need not be listed)
                if orig not in d:
                    viol("C17", "dump-missing", "%s was replaced by %s in %r but the map has no line for it" % (orig, img, mp))
                elif d[orig] != img:
                    viol("C17", "dump-wrong-image", "%s was replaced by %s in %r, the map says %s" % (orig, img, mp, d[orig]))


def extract(line, out_line, secrets, collapse_ws, loose_enclosing=False):
    """Recover the tokens at the generated positions of `line` from its output line.

    Literal segments are matched verbatim (inner whitespace runs flexible when `collapse_ws`);
    returns [(segment, output token)] or None when the context was not preserved."""
    rx = ""
    groups = []
    for s in line["segs"]:
        if s[0] == "lit":
            if collapse_ws:
                parts = re.split(r"(\s+)", s[1])
                rx += "".join(r"\s+" if (i % 2) else re.escape(x) for i, x in enumerate(parts))
            else:
                rx += re.escape(s[1])
        elif s[0] == "bad":
            return None
        else:
            meta = s[2] if len(s) > 2 else {}
            pre, post = re.escape(meta.get("pre", "")), re.escape(meta.get("post", ""))
            if s[0] == "sec" and loose_enclosing:
                # whatever became of the enclosing text: only the token between enclosing characters is wanted
                rx += r"""["'\[{\\]*(\S+?)["'\]};,\\]*"""
            elif s[0] == "sec":
                rx += pre + r"(\S+?)" + post
            elif s[0] in ("a4", "k4"):
                rx += r"((?<![0-9.])[0-9]+(?:\.[0-9]+){3}(?:/[0-9]{1,3})?(?![0-9.]))"
            elif s[0] == "a6":
                rx += r"((?<![0-9A-Fa-f:])[0-9A-Fa-f:]*:[0-9A-Fa-f:.]*(?:/[0-9]{1,3})?(?![0-9A-Fa-f:]))"
            elif s[0] == "as":
                rx += r"((?<![0-9])[0-9]+(?![0-9]))"
            else:
                rx += r"(\S+?)"
            groups.append(s)
    m = re.fullmatch(rx, out_line.rstrip("\r"), re.S)
    if not m:
        return None
    return list(zip(groups, m.groups()))


# ---------------------------------------------------------------------------
# shrinking
# ---------------------------------------------------------------------------
def shrink_candidates(plan):
    # drop faults
    for kept in core.drop_chunks(plan["faults"], 0):
        p = copy.deepcopy(plan)
        removed = [f for f in plan["faults"] if f not in kept]
        p["faults"] = copy.deepcopy(kept)
        for f in removed:
            _undo_content_fault(p, f)
        yield p
    # drop files (never the single input)
    if plan["in"] == "in":
        for kept in core.drop_chunks(plan["files"], 1):
            p = copy.deepcopy(plan)
            p["files"] = copy.deepcopy(kept)
            yield p
    # drop lines
    for i, f in enumerate(plan["files"]):
        for kept in core.drop_chunks(f["lines"], 0):
            p = copy.deepcopy(plan)
            p["files"][i]["lines"] = copy.deepcopy(kept)
            yield p
    # extra disk
    for k in list(plan["xdisk"]["files"]):
        p = copy.deepcopy(plan)
        del p["xdisk"]["files"][k]
        yield p
    # options to defaults
    o = plan["opts"]
    for key, simple in (("pwd", False), ("ip", False), ("words", None), ("as", None), ("reserved", None), ("pp", None),
                        ("pa", None), ("private", False), ("hb", None), ("salt", "s")):
        if o.get(key) != simple:
            p = copy.deepcopy(plan)
            p["opts"][key] = simple
            if W.any_feature(p["opts"]):
                yield p
    if plan["dump"]:
        p = copy.deepcopy(plan)
        p["dump"] = None
        yield p
    for key in ("bufsize", "chunk", "max_read", "max_write", "listing_key"):
        if plan["knobs"].get(key) is not None:
            p = copy.deepcopy(plan)
            p["knobs"][key] = None
            yield p
    if plan["entry"] != "files" and plan["entry"] != "cli":
        pass
    if plan.get("baseline"):
        p = copy.deepcopy(plan)
        p["baseline"] = False
        yield p
    # simplify lines to literals
    for i, f in enumerate(plan["files"]):
        for j, ln in enumerate(f["lines"]):
            if len(ln["segs"]) > 1 or ln["segs"][0][0] != "lit" or ln["segs"][0][1] != "x":
                if any(s[0] == "bad" for s in ln["segs"]):
                    continue
                p = copy.deepcopy(plan)
                p["files"][i]["lines"][j] = G.lit_line("x")
                yield p


def _undo_content_fault(p, f):
    if f["kind"] == "undecodable":
        for fl in p["files"]:
            if fl["path"] == f["path"]:
                fl["lines"] = [ln for ln in fl["lines"] if not any(s[0] == "bad" for s in ln["segs"])]
    elif f["kind"] == "out_is_dir":
        mp = p["out"] if p["in"] != "in" else W.mirror(p["in"], p["out"], f["path"])
        p["xdisk"]["dirs"] = [d for d in p["xdisk"]["dirs"] if not (d == mp or d.startswith(mp + "/"))]
        p["xdisk"]["files"] = {k: v for k, v in p["xdisk"]["files"].items() if not k.startswith(mp + "/")}
    elif f["kind"] == "out_parent_is_file":
        p["xdisk"]["files"].pop(f.get("blocker"), None)
