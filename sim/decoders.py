"""Independent decoders: replacement token -> pseudonym index (never netconan's own classifier)."""
import binascii
import re

from passlib.hash import cisco_type7, md5_crypt, sha512_crypt

from . import grammar as G

_PSEUDO = re.compile(r"netconanRemoved(\d+)\Z")
_verify_cache = {}


def _idx(plain):
    m = _PSEUDO.match(plain or "")
    return int(m.group(1)) if m else None


def decode_index(tok, max_n=64):
    """-> (index or None, class of the token by the independent classifier)."""
    cls = G.classify(tok)
    try:
        if cls == "text":
            return _idx(tok), cls
        if cls == "j9":
            plain = G.j9_decode(tok)
            n = _idx(plain)
            if n is None and not plain.startswith("$9$"):
                n = decode_index(plain, max_n)[0]      # a pseudonym re-encoded in another format class
            return n, cls
        if cls.startswith("md5") or cls == "sha":
            if tok in _verify_cache:
                return _verify_cache[tok], cls
            h = md5_crypt if cls.startswith("md5") else sha512_crypt
            found = None
            for n in range(max_n + 1):
                try:
                    if h.verify("netconanRemoved%d" % n, tok):
                        found = n
                        break
                except ValueError:
                    break
            _verify_cache[tok] = found
            return found, cls
        if cls == "num":
            hx = "%x" % int(tok)
            if len(hx) % 2:
                hx = "0" + hx
            return _idx(binascii.unhexlify(hx).decode("ascii", "replace")), cls
        if cls == "t7":
            return _idx(cisco_type7.decode(tok)), cls
        if cls == "hex":
            if len(tok) % 2:
                return None, cls
            return _idx(binascii.unhexlify(tok).decode("ascii", "replace")), cls
    except (ValueError, binascii.Error, UnicodeDecodeError):
        return None, cls
    return None, cls


def decode_any(tok, max_n=64):
    """decode_index, then the other shape readings of an ambiguous token (an all-digit type 7, ...)."""
    n, cls = decode_index(tok, max_n)
    if n is not None:
        return n, cls
    try:
        if re.fullmatch(r"[01][0-9]([0-9a-fA-F]{2})+", tok):
            m = _idx(cisco_type7.decode(tok))
            if m is not None:
                return m, "t7"
        if re.fullmatch(r"([0-9a-fA-F]{2})+", tok):
            m = _idx(binascii.unhexlify(tok).decode("ascii", "replace"))
            if m is not None:
                return m, "hex"
    except (ValueError, binascii.Error, UnicodeDecodeError):
        pass
    return None, cls
