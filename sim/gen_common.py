"""Shared pieces of the world-level generators: option swarms, pools, content, trees, knobs."""
import ipaddress
import posixpath
import os
import re

from . import grammar as G

SALT_CHARS = "abcdefghijklmnopqrstuvwxyzABCDEFGHIJKLMNOPQRSTUVWXYZ0123456789"

FILE_NAMES = ["a.cfg", "b.cfg", "r1 core.conf", "rtr-é.txt", "x.y.z", "CONFIG", "ñandú.cfg", "c d e.txt", "0",
              "edge_fw.cfg", "sw01.txt", "Ünï.conf", "-opt.cfg", "a..b.cfg", "~tilde", "--salt"]
HIDDEN_NAMES = [".hidden", ".DS_Store", ".x.cfg"]
DIR_NAMES = ["sub", "site a", "düs", ".git", "deep", "d2", "pop-1", "out", "deeper", "res dir", "in", "nested"]


def gen_salt(r, alnum_only=False):
    c = r.random()
    if not alnum_only:
        if c < 0.06:
            return ""
        if c < 0.10:
            return "sälz✓" + "".join(r.choice(SALT_CHARS) for _ in range(r.randint(0, 4)))
        if c < 0.16:
            return r.choice(["_", "#", "ü", "+", "@", "~"]) + "".join(r.choice(SALT_CHARS) for _ in range(r.randint(1, 8)))
        if c < 0.21:
            # white space and quote characters at the ends (a salt pasted from a log line, quotes and all)
            core = "".join(r.choice(SALT_CHARS) for _ in range(r.randint(1, 8)))
            return r.choice([" %s", "%s ", "\"%s\"", "'%s", "%s'", "\t%s", " %s  ", "%s\""]) % core
    return "".join(r.choice(SALT_CHARS) for _ in range(r.randint(1, 16)))


def rand_net4(r, lens=(8, 12, 16, 20, 24, 28, 30, 32)):
    plen = r.choice(lens)
    base = r.choice([0x17000000, 0x0A000000, 0xC0A80000, 0xAC100000, 0x64400000, 0xC6336400]) | r.getrandbits(20)
    base &= (0xFFFFFFFF << (32 - plen)) & 0xFFFFFFFF if plen else 0
    return "%s/%d" % (ipaddress.IPv4Address(base), plen)


def gen_knobs(r):
    return {"set_key": "%08x" % r.getrandbits(32), "rand_seed": r.getrandbits(32), "urandom_key": r.getrandbits(32),
            "clock": 1_500_000_000 + r.getrandbits(28), "pid": r.randint(2, 60000),
            "host": r.choice(["rtr-lab-1", "build42", "localhost", "anon-box"]), "sched_key": "%08x" % r.getrandbits(32), "cli_style": r.choice([0, 0, 1, 2, 3, 4, 5, 7, 8, 9, 12, 15]),
            "log_level": r.choice([None, None, None, "DEBUG", "DEBUG", "WARNING"]),
            "tmp_same_fs": r.choice([False, False, True]),
            "cwd": r.choice(["/home/alice/configs", "/srv/netconan/work", "/", "/tmp/x y"]),
            "environ": {"TZ": r.choice(["UTC", "Asia/Tokyo", "America/Lima"]), "LANG": r.choice(["C", "en_US.UTF-8", "de_DE.UTF-8"]),
                        "USER": r.choice(["root", "alice", "svc-netconan"]), "COLUMNS": str(r.choice([80, 132, 200]))},
            "listing_key": None if r.random() < 0.15 else "%08x" % r.getrandbits(32),
            "bufsize": r.choice([None, 8192, 8, 16, 33, 64, 200, 1024]),
            "chunk": r.choice([None, None, 1, 7, 64]),
            "max_read": r.choice([None, None, 1, 5, 50]),
            "max_write": r.choice([None, None, 1, 3, 40])}


def gen_opts(r, features=None, cli_safe=True, j9=False):
    """A random option set.  `features` forces a subset of {"pwd","ip","words","as"}."""
    if features is None:
        features = [f for f in ("pwd", "ip", "words", "as") if r.random() < 0.5]
        if not features:
            features = [r.choice(["pwd", "ip", "words", "as"])]
    o = {"pwd": "pwd" in features, "ip": "ip" in features, "undo": False,
         "salt": gen_salt(r, alnum_only=j9 and "pwd" in features),
         "words": None, "as": None, "reserved": None, "pp": None, "pa": None, "private": False, "hb": None}
    if o["ip"]:
        o["hb"] = r.choice([None, None, 8, 0, 0, 1, 12, 17, 24, 32])
        c = r.random()
        if c < 0.25:
            o["pp"] = [rand_net4(r) for _ in range(r.randint(1, 3))]
        elif c < 0.30 and not cli_safe:
            o["pp"] = []
        if r.random() < 0.25:
            o["pa"] = [rand_net4(r, (16, 24, 28, 32)) for _ in range(r.randint(1, 2))]
        o["private"] = r.random() < 0.15
        if r.random() < 0.08:
            # several single-address entries (each is seeded into the mapping at full length when the anonymizer is built)
            hosts = [rand_net4(r, (32,)) for _ in range(r.randint(2, 5))]
            if r.random() < 0.6:
                o["pa"] = (o["pa"] or []) + hosts
            else:
                o["pp"] = (o["pp"] or []) + hosts
    if "as" in features:
        o["as"] = r.sample(G.AS_POOL, r.randint(1, 3))
    return o


DIRECTED_IMAGES = [0x00000007, 0x0000FFFF, 0x80000000, 0xFFFFFF00, 0xFFFF0000, 0xFFFFFFFE, 0x000000FF, 0xE0000005, 0xE0000012,
                   0xE00000FB, 0x7F000001, 0xA9FE0001, 0xC0000201, 0x64400001, 0xFFFFFFFF, 0x00000000, 0x0A000001, 0xC0A80101]


def boundary_line(r, ctx, boundary=None, words=False):
    """One very long line with address (or sensitive-word) tokens packed around a power-of-two offset (reader block sizes)."""
    boundary = boundary or r.choice([8192, 65536, 65536, 131072])
    pad = boundary - r.randint(10, 150)
    segs = [["lit", "! " + "x" * (pad - 2) + " "]]
    for i in range(r.randint(10, 16) if not words else r.randint(24, 40)):
        if words:
            wi = r.randrange(len(ctx["words"]))
            segs.append(["w", ctx["words"][wi], {"w": wi}])
        elif ctx["a6"] and r.random() < 0.3:
            v = r.choice(ctx["a6"])
            segs.append(["a6", G.tok6(r, v), {"v": v}])
        else:
            v = r.choice(ctx["a4"])
            segs.append(["a4", G.tok4(r, v, zeros=False), {"v": v}])
        segs.append(["lit", " "])
    segs.append(["lit", "end"])
    return {"segs": segs, "eol": "\n"}


DIRECTED_IMAGES6 = [int(ipaddress.IPv6Address(x)) for x in (
    "fc00::1", "fd12:3456:789a::1", "fdff:ffff:ffff:ffff:ffff:ffff:ffff:fffe", "fe80::1", "fe80::a:b", "ff02::1", "ff05::1:3", "::1", "::",
    "::ffff:c000:201", "::ffff:10.1.2.3", "2001:db8::1", "fec0::1", "64:ff9b::c000:201", "2002:c000:201::1",
    "ffff:ffff:ffff:ffff:ffff:ffff:ffff:ffff", "100::1", "2001::1")]


def directed_line(r):
    """A line whose address is chosen so that its IMAGE is a special value (netmask-shaped, multicast control
    block, loopback, unique-local, link-local, IPv4-mapped ...): the original is derived at execution time by a cold twin
    (resolve_directed)."""
    if r.random() < 0.35:
        pat = r.choice([["lit:ipv6 route ", "X", "lit:/64 ", "X"], ["lit: neighbor ", "X", "lit: remote-as 65001"],
                        ["lit:ntp server ", "X", "lit:;"], ["lit:set interfaces lo0 unit 0 family inet6 address ", "X", "lit:/128"]])
        segs = []
        for p in pat:
            if p.startswith("lit:"):
                segs.append(["lit", p[4:]])
            else:
                segs.append(["a6", "", {"img": r.choice(DIRECTED_IMAGES6), "fam": 6}])
        return {"segs": segs, "eol": "\n"}
    img = r.choice(DIRECTED_IMAGES)
    pat = r.choice([["lit:ip route ", "X", "lit: ", "k:255.255.255.0", "lit: ", "X2"], ["lit: neighbor ", "X", "lit: remote-as 65001"],
                    ["lit:ntp server ", "X", "lit:;"], ["lit: ip ospf neighbor ", "X"]])
    segs = []
    for p in pat:
        if p.startswith("lit:"):
            segs.append(["lit", p[4:]])
        elif p.startswith("k:"):
            segs.append(["k4", p[2:]])
        elif p == "X":
            segs.append(["a4", "", {"img": img}])
        else:
            segs.append(["a4", "", {"img": r.choice(DIRECTED_IMAGES)}])
    return {"segs": segs, "eol": "\n"}


def resolve_directed(files, opts, knobs):
    """Fill in the originals of directed address segments: the pre-image of `img` under the run's salt and
    options, asked of a cold twin.  Pre-images that are themselves kept tokens become `k4` segments."""
    import copy
    import ipaddress as _ip
    if not any(len(s) > 2 and isinstance(s[2], dict) and "img" in s[2] and "v" not in s[2]
               for f in files for ln in f["lines"] for s in ln["segs"]):
        return files
    from . import world as W
    from .proc import SimProcess
    files = copy.deepcopy(files)
    p = SimProcess(dict(knobs or {}))
    nets = [_ip.ip_network(n) for n in keep_nets(opts)]
    with p:
        try:
            fa = p.af.FileAnonymizer(**W.fa_kwargs(dict(opts, ip=True, undo=False)))
            an, an6 = fa.anonymizer4, fa.anonymizer6
        except Exception:
            an = an6 = None
        for f in files:
            for ln in f["lines"]:
                for s in ln["segs"]:
                    if len(s) > 2 and isinstance(s[2], dict) and "img" in s[2] and "v" not in s[2] and s[2].get("fam") == 6:
                        try:
                            v = an6.deanonymize(s[2]["img"])
                        except Exception:
                            v = None
                        if v is None:
                            s[0], s[1] = "lit", "unresolved"
                            s[2:] = []
                        else:
                            s[1] = str(_ip.IPv6Address(v))
                            s[2]["v"] = v
                    elif len(s) > 2 and isinstance(s[2], dict) and "img" in s[2] and "v" not in s[2]:
                        try:
                            v = an.deanonymize(s[2]["img"])
                        except Exception:
                            v = None
                        if v is None:
                            s[0], s[1] = "lit", "192.0.2.77"[:0] + "unresolved"
                            s[2:] = []
                        elif G.is_mask4(v) or any(_ip.IPv4Address(v) in n for n in nets):
                            s[0], s[1] = "k4", str(_ip.IPv4Address(v))
                            s[2:] = []
                        else:
                            s[1] = str(_ip.IPv4Address(v))
                            s[2]["v"] = v
    return files


def stale_map(files, key, torn=0):
    """A well-formed map file as an earlier run under ANOTHER salt would have left it: this tree's own addresses,
    each with some other image.  `torn` characters are cut off its end (interrupted earlier run)."""
    out = []
    seen = set()
    for f in files:
        for ln in f["lines"]:
            for sg in ln["segs"]:
                if sg[0] in ("a4", "a6") and len(sg) > 2 and isinstance(sg[2], dict) and "v" in sg[2] and (sg[0], sg[2]["v"]) not in seen:
                    seen.add((sg[0], sg[2]["v"]))
                    v = sg[2]["v"]
                    if sg[0] == "a4":
                        out.append("%s\t%s" % (ipaddress.IPv4Address(v), ipaddress.IPv4Address((v * 2654435761 + key) & 0xFFFFFFFF)))
                    else:
                        out.append("%s\t%s" % (ipaddress.IPv6Address(v), ipaddress.IPv6Address((v * 0x9E3779B97F4A7C15 + key) % (1 << 128))))
    text = "".join(x + "\n" for x in out[:200])
    return text[: len(text) - torn] if torn else text


RESERVED_BASES = ["router", "system", "permit", "interface", "neighbor", "trunk", "snmp"]


def keep_nets(o):
    nets = list(o.get("pa") or [])
    if o.get("private"):
        nets += ["10.0.0.0/8", "172.16.0.0/12", "192.168.0.0/16"]
    return nets


def make_ctx(r, o, nwords=None):
    nets = keep_nets(o)
    k4 = list(G.MASKS4)
    for n in nets:
        net = ipaddress.ip_network(n)
        k4.append(str(ipaddress.IPv4Address(int(net.network_address) | (r.getrandbits(32 - net.prefixlen)
                                                                          if net.prefixlen < 32 else 0))))
    if r.random() < 0.3:
        # kept tokens written with zero-padded octets must come out as written
        k4 = k4 + [".".join(o_.zfill(3) for o_ in t.split(".")) for t in r.sample(k4, min(2, len(k4)))]
    ctx = {"a4": G.addr_pool4(r, nets), "a6": G.addr_pool6(r), "k4": k4, "keep_is_net": len(G.MASKS4),
           "as": o.get("as") or G.AS_POOL[:2], "words": o.get("words") or [], "rw": o.get("_rw")}
    return ctx


def add_words(r, o, n=None, forbidden=""):
    o["words"] = G.gen_words(r, n or r.randint(1, 4), G.VOCAB_TEXT + "\n" + forbidden)
    if r.random() < 0.15:
        # a listed word that is a substring of a built-in reserved word: tokens exactly equal to that reserved word are kept
        base = r.choice(RESERVED_BASES)
        subs = [base[i:j] for i in range(len(base)) for j in range(i + 3, len(base) + 1)
                if re.fullmatch(r"[g-z][a-z-]*[g-z]", base[i:j]) and base[i:j] not in "netconanremoved" and base[i:j] != base]
        # ... and nowhere else in the fixed vocabulary (a listed word inside `snmp-community` is rightly replaced there)
        toks = set((G.VOCAB_TEXT + "\n" + forbidden).lower().split())
        subs = [w for w in subs if all(w not in t or t == base for t in toks)]
        if subs:
            w = r.choice(subs)
            if w not in [x.lower() for x in o["words"]]:
                o["words"].append(w)
                o["_rw"] = [base, w]
    if o["words"] and r.random() < 0.1:
        w = r.choice(o["words"])
        o["words"].append(w.swapcase() if w.swapcase().lower() == w.lower() else w)      # the same word listed twice
    return o["words"]


def gen_secrets(r, n, classes=None, words=(), variant_rate=0.12):
    """n secret identities with an `a` value and a same-shape `b` value (paired world)."""
    classes = classes or ["text", "text", "num", "hex", "t7", "md5", "sha", "j9p", "j9p", "j9p-num", "j9p-hex", "j9p-l1", "c9", "rwc", "aws"]
    out = {}
    used = set()
    for i in range(n):
        cls = r.choice(classes)
        if cls == "rwc":
            # a secret that is a reserved word except for its letter case: not reserved, must be replaced
            free = [pr for pr in RWC_PAIRS if pr[0] not in used and pr[1] not in used]
            if free:
                a, b = r.choice(free)
                if r.random() < 0.5:
                    a, b = a.upper(), b.upper()
                if a not in used and b not in used:
                    used.update([a, b])
                    out[str(i)] = {"cls": "rwc", "a": a, "b": b}
                    continue
            cls = "text"
        if cls == "pseudo":
            # a secret that looks like one of netconan's own pseudonyms
            k = r.randint(0, 3)
            a, b = "netconanRemoved%d" % k, "netconanRemoved%d" % (k + 4)
            if r.random() < 0.3:
                a, b = a.encode().hex(), b.encode().hex()
            if a not in used and b not in used:
                used.update([a, b])
                out[str(i)] = {"cls": "pseudo", "a": a, "b": b}
                continue
            cls = "text"
        if cls == "md5":
            cls = "md5-%d" % r.randint(1, 8)
        for attempt in range(50):
            a = G.gen_secret(r, cls)
            b = G.gen_secret(r, cls, length=len(a), like=a)
            if attempt == 0 and out and r.random() < variant_rate:
                # a different secret that differs from an earlier one only in letter case
                same = [k for k in sorted(out) if out[k]["cls"] == cls]
                prev = out[r.choice(same)] if same else out[r.choice(sorted(out))]
                if prev["cls"] == cls == "j9p-l1":
                    # differs from the earlier plaintext only in its non-ASCII letters
                    tr = str.maketrans("\xe4\xf6\xfc\xe9\xf1\xdf", "\xf6\xfc\xe9\xf1\xdf\xe4")
                    a, b = prev["a"].translate(tr), prev["b"].translate(tr)
                elif prev["cls"] == cls and cls in ("text", "hex", "t7", "j9p", "j9p-hex"):
                    a2, b2 = prev["a"].swapcase(), prev["b"].swapcase()
                    if cls == "text" and r.random() < 0.5:
                        # ... or only in a leading backslash (never a trailing one: `\"` would read as an escaped quote)
                        bs = r.choice(["\\", "\\\\"])
                        a2, b2 = bs + prev["a"], bs + prev["b"]
                    if a2 != prev["a"] and b2 != prev["b"]:
                        a, b = a2, b2
            want = {"j9p": "text", "aws": "text", "j9p-num": "num", "j9p-hex": "hex", "c9": "j9", "j9p-l1": "text"}.get(cls, cls)
            ok = (G.classify(a) == want and G.classify(b) == want and len(a) == len(b) and a != b
                  and a not in used and b not in used
                  and not any(w.lower() in a.lower() or w.lower() in b.lower() for w in words))
            if ok:
                break
        else:
            raise RuntimeError("could not generate a secret pair of class %s" % cls)
        used.update([a, b])
        out[str(i)] = {"cls": cls, "a": a, "b": b}
    return out


RWC_PAIRS = [("Router", "System"), ("Permit", "Secret"), ("Enable", "Switch"), ("Neighbor", "Password"), ("Interface", "Community"),
             ("Private", "Network"), ("Admin", "Cisco"), ("Default", "Version")]


def slot_class(cls):
    if cls in ("rwc",):
        return "text"
    if cls == "pseudo":
        return "text"
    if cls in ("j9p", "j9p-num", "j9p-hex", "c9", "j9mix", "j9p-l1", "j9raw", "j9p-ws"):
        return "j9"
    if cls.startswith("md5"):
        return "md5"
    return cls


LEADS = ["", "", " ", "    ", "\t"]
EXOTIC_WS = ["\x0b", "\x0c", "\x1c", "\x1d", "\x1e", "\x85", "\u2028", "\u2029"]


def secret_line(r, ctx, secrets, kinds=("keep", "scrub"), ident=None, templates=None, mix_slots=False):
    """A secret-bearing line built from a template; returns None when no template fits."""
    ids = sorted(secrets) if ident is None else [ident]
    for _ in range(30):
        t, allowed, kind = r.choice(templates or G.TEMPLATES)
        if kind not in kinds:
            continue
        pieces = G.parse_template(t)
        nslots = sum(1 for p in pieces if p[0] == "sec")
        cand = [i for i in ids if slot_class(secrets[i]["cls"]) in allowed]
        if not cand:
            continue
        segs = []
        lead = r.choice(LEADS)
        if lead:
            segs.append(["lit", lead])
        first = True
        for p in pieces:
            if p[0] == "lit":
                segs.append(["lit", p[1]])
            elif p[0] == "ip":
                v = r.choice(ctx["a4"])
                segs.append(["a4", G.tok4(r, v, zeros=False), {"v": v}])
            else:
                if not first and mix_slots:
                    allc = [j for j in sorted(secrets) if slot_class(secrets[j]["cls"]) in allowed]
                    i = r.choice(allc or cand)
                else:
                    i = r.choice(cand)
                first = False
                meta = {"id": int(i), "kind": kind}
                if secrets[i]["cls"].startswith("j9p") and secrets[i]["cls"] != "j9p-never":
                    meta.update(enc="j9", salt=r.choice(G.J9_ALPHA), fill=r.choice("nQz7i"))
                segs.append(["sec", "", meta])
        # merge adjacent literals
        merged = []
        for s in segs:
            if merged and s[0] == "lit" and merged[-1][0] == "lit":
                merged[-1][1] += s[1]
            else:
                merged.append(s)
        if ctx.get("words") and r.random() < 0.15:
            # a listed sensitive word inside the kept context (a user / group / vrf name)
            for sg in merged:
                if sg[0] == "lit":
                    m = re.search(r"Someone|Something|bob\b", sg[1])
                    if m:
                        i = merged.index(sg)
                        wi = r.randrange(len(ctx["words"]))
                        merged[i:i + 1] = [["lit", sg[1][:m.start()]], ["w", ctx["words"][wi].lower(), {"w": wi}],
                                           ["lit", "-adm" + sg[1][m.end():]]]
                        break
        if r.random() < 0.07:
            # an exotic whitespace character (a line boundary for str.splitlines, plain whitespace for
            # a text-mode reader) between two words of the kept context
            lits = [s for s in merged if s[0] == "lit" and " " in s[1].strip()]
            if lits:
                s = r.choice(lits)
                body = s[1].strip()
                pos = [i for i, ch in enumerate(s[1]) if ch == " " and 0 < i - (len(s[1]) - len(s[1].lstrip())) < len(body) - 1]
                if pos:
                    i = r.choice(pos)
                    s[1] = s[1][:i] + r.choice(EXOTIC_WS) + s[1][i + 1:]
        return {"segs": merged, "eol": "\n", "tmpl": t, "kind": kind}
    return None


def gen_lines(r, ctx, secrets, o, n, eol_variety=True, long_ok=True):
    """n lines mixing benign vocabulary with sensitive items at known positions."""
    lines = []
    for _ in range(n):
        c = r.random()
        ln = None
        if c < 0.30:
            ln = G.lit_line(r.choice(G.BENIGN))
        elif c < 0.50 and secrets:
            ln = secret_line(r, ctx, secrets)
        elif c < 0.65:
            ln = G.expand(r, r.choice(G.LINES_A4), ctx)
        elif c < 0.75:
            ln = G.expand(r, r.choice(G.LINES_A6), ctx)
        elif c < 0.78 and ctx.get("rw"):
            base, sub = ctx["rw"]
            wi = [x.lower() for x in ctx["words"]].index(sub) if sub in [x.lower() for x in ctx["words"]] else 0
            ln = {"segs": [["lit", r.choice([" match protocol ", "set ", " "])], ["rw", base], ["lit", r.choice(["   ! ", " vrf ", " and "])],
                           ["w", sub, {"w": wi}], ["lit", r.choice([" farm", "", " x"])]], "eol": "\n"}
        elif c < 0.85 and ctx["words"]:
            ln = G.expand(r, r.choice(G.LINES_W), ctx)
        elif c < 0.93:
            ln = G.expand(r, r.choice(G.LINES_AS), ctx)
        if ln is None:
            ln = G.lit_line(r.choice(G.BENIGN))
        if r.random() < 0.008 and long_ok:
            ln = long_pad(r, ln, secrets)
        if eol_variety and r.random() < 0.05:
            ln["eol"] = "\r\n"
        elif eol_variety and r.random() < 0.04:
            ln["eol"] = "\r"          # classic Mac line ending: a line boundary for a text-mode reader
        lines.append(ln)
    if lines and eol_variety and r.random() < 0.2:
        lines[-1]["eol"] = ""
    return lines


def long_pad(r, ln, secrets):
    """Pad a line at its start so that a multiple of the default buffer size (8192 characters) falls at a chosen character
    of it: a reader that hands lines over in bounded pieces would cut the line there."""
    body = "".join(G.render_seg(s, "a", secrets or {}) for s in ln["segs"] if s[0] != "bad")
    if os.environ.get("VERIF_NO_LONGPAD"):      # evaluation aid only (a change that stalls on huge lines hides its other effects)
        return ln
    if any(s[0] == "bad" for s in ln["segs"]) or not body:
        return ln
    cut = r.randint(0, len(body))
    n = r.choice([8192, 8192, 8192, 8192, 16384, 4096, 65536]) * r.choice([1, 1, 2]) - cut
    pad = " " * n if r.random() < 0.6 else "x" * (n - 1) + " "
    if ln["segs"][0][0] == "lit":
        ln["segs"][0][1] = pad + ln["segs"][0][1]
    else:
        ln["segs"].insert(0, ["lit", pad])
    return ln


MANY_NAMES = ["rtr%02d.cfg" % i for i in range(60)]


def gen_tree(r, nfiles, hidden=True, dirs=True):
    """-> (list of input relpaths under in/, list of extra empty dirs, list of hidden relpaths)"""
    dpool = [""]
    if dirs:
        for _ in range(r.randint(0, 3)):
            parent = r.choice(dpool)
            if parent.count("/") >= 2 and parent:
                continue
            d = posixpath.join(parent, r.choice(DIR_NAMES)) if parent else r.choice(DIR_NAMES)
            if d not in dpool:
                dpool.append(d)
    if dirs and r.random() < 0.06:
        # a sub-directory chain that spells the (absolute) input path once more
        dpool.append(posixpath.join(r.choice(dpool), "simfs", "in").lstrip("/"))
    paths = []
    guard = 0
    while len(paths) < nfiles and guard < 100:
        guard += 1
        d = r.choice(dpool)
        names = FILE_NAMES if nfiles <= len(FILE_NAMES) else MANY_NAMES
        p = posixpath.join("in", d, r.choice(names)) if d else posixpath.join("in", r.choice(names))
        if p not in paths and not any(p.startswith(q + "/") or q.startswith(p + "/") for q in paths) \
                and not any(posixpath.join("in", x) == p for x in dpool if x):
            paths.append(p)
    hid = []
    if hidden and r.random() < 0.5:
        for _ in range(r.randint(1, 2)):
            d = r.choice(dpool)
            p = posixpath.join("in", d, r.choice(HIDDEN_NAMES)) if d else posixpath.join("in", r.choice(HIDDEN_NAMES))
            if p not in hid:
                hid.append(p)
    empties = []
    if dirs and r.random() < 0.3:
        empties.append(posixpath.join("in", r.choice(dpool), "empty-dir").replace("//", "/"))
    used_dirs = sorted({posixpath.dirname(p) for p in paths + hid} | {posixpath.join("in", d) for d in dpool if d})
    return paths, sorted(set(empties) | set(used_dirs)), hid
