"""Family `lay` (C12): one pool of lines laid out as files in two different ways.

Layout A and layout B differ in the order of the lines, in the file boundaries and in how the files
are split over runs/processes.  Oracles: (1) structure of every output file, (2) locality -- the
output of a line is the same in both layouts (after mapping password pseudonyms to identities),
(3) conservation -- benign vocabulary verbatim, literal context of sensitive lines kept.
"""
import copy
import random

from . import core
from . import decoders as D
from . import gen_common as GC
from . import grammar as G
from . import world as W
from .fam_fs import _structure, extract

NAME = "lay"


def generate(seed, tier="quick", **kw):
    r = random.Random(seed)
    feats = [f for f in ("pwd", "ip", "words", "as") if r.random() < 0.5] or [r.choice(["pwd", "ip", "words", "as"])]
    o = GC.gen_opts(r, features=feats, cli_safe=True, j9=True)
    if "words" in feats:
        GC.add_words(r, o, n=r.randint(1, 3))
    secrets = GC.gen_secrets(r, r.randint(1, 4), words=o["words"] or ())
    ctx = GC.make_ctx(r, o)
    n = r.randint(4, 28)
    pool = GC.gen_lines(r, ctx, secrets, o, n, eol_variety=False)
    for ln in pool:
        ln.pop("eol", None)
    layouts = []
    for which in range(2):
        order = list(range(n))
        if which == 1 or r.random() < 0.3:
            r.shuffle(order)
        nfiles = r.randint(1, min(5, n))
        cuts = sorted(r.sample(range(1, n), nfiles - 1)) if nfiles > 1 else []
        chunks = [order[a:b] for a, b in zip([0] + cuts, cuts + [n])]
        nruns = r.randint(1, min(3, len(chunks)))
        runs = [[] for _ in range(nruns)]
        for i, ch in enumerate(chunks):
            runs[r.randrange(nruns) if i >= nruns else i].append({"name": "f%d.cfg" % i, "lines": ch,
                                                                 "final_newline": r.random() > 0.2,
                                                                 "crlf": r.random() < 0.1})
        layouts.append({"runs": [x for x in runs if x], "entry": r.choice(["cli", "files", "file", "io"]),
                        "knobs": [GC.gen_knobs(r) for _ in range(nruns)]})
    # hold the hash-seed dimension fixed (C13/C10's subject)
    for lay in layouts:
        for k in lay["knobs"]:
            k["set_key"] = layouts[0]["knobs"][0]["set_key"]
            k["urandom_key"] = layouts[0]["knobs"][0]["urandom_key"]
    pre_b = None
    if r.random() < 0.5:
        # library use: the process that runs layout B has already anonymized these very lines with other options
        o2 = dict(o)
        o2["salt"] = GC.gen_salt(r, True)
        for f in ("pwd", "ip"):
            if r.random() < 0.4:
                o2[f] = not o2[f]
        if r.random() < 0.6:
            o2["words"] = list(o["words"]) if o["words"] and r.random() < 0.6 else ["kiwi", "zzother"]
            if r.random() < 0.7:
                # ... preferably one that shares a line with one of this run's own words
                near = sorted({t for ln in pool if any(sg[0] == "w" for sg in ln["segs"]) for sg in ln["segs"] if sg[0] == "lit"
                               for t in sg[1].split() if t.isalpha() and t.isascii() and len(t) >= 3})
                o2["words"] = o2["words"] + [r.choice(near or ["via", "description", "remark", "permit", "hostname", "contact", "core"])]
                if r.random() < 0.85:
                    o2["salt"] = o["salt"]
        if not (o2["pwd"] or o2["ip"] or o2["words"] or o2["as"]):
            o2["ip"] = True
        pre_b = {"opts": o2}
    return {"family": NAME, "seed": seed, "pool": pool, "secrets": secrets, "opts": o, "layouts": layouts, "pre_b": pre_b}


def _file_bytes(plan, f):
    out = bytearray()
    eol = "\r\n" if f["crlf"] else "\n"
    for i, idx in enumerate(f["lines"]):
        last = i == len(f["lines"]) - 1
        ln = dict(plan["pool"][idx], eol=("" if last and not f["final_newline"] else eol))
        out += G.render_file([ln], "a", plan["secrets"])
    return bytes(out)


def check(plan):
    V = []
    o = plan["opts"]
    probes = {"lines": len(plan["pool"]), "benign_checked": 0, "locality_compared": 0, "sensitive_lines": 0,
              "unterminated_files": 0, "crlf_files": 0, "runs": 0, "tokens_compared": 0}
    collapse = bool(o["pwd"] or o["words"])
    results = []          # per layout: {pool index: (output line incl. terminator, input text line, run no)}
    steps = 0
    digest_items = []
    for li, lay in enumerate(plan["layouts"]):
        res = {}
        for ri, run in enumerate(lay["runs"]):
            probes["runs"] += 1
            disk = {"dirs": ["in"], "files": {}}
            for f in run:
                disk["files"]["in/" + f["name"]] = _file_bytes(plan, f)
                probes["unterminated_files"] += int(not f["final_newline"])
                probes["crlf_files"] += int(f["crlf"])
            step = {"entry": lay["entry"], "opts": o, "in": "in", "out": "out", "dump": None}
            pre = []
            if li == 1 and plan.get("pre_b"):
                probes["pre_same_lines"] = probes.get("pre_same_lines", 0) + 1
                text = "".join(W._decode_universal(disk["files"]["in/" + f["name"]]) + "\n" for f in run)
                pre = [{"kind": "lines", "opts": plan["pre_b"]["opts"], "text": text}]
            H = W.run_world({"disk": disk, "procs": [{"knobs": lay["knobs"][ri % len(lay["knobs"])], "faults": [], "pre": pre,
                                                        "steps": [step]}]})
            h = H["procs"][0]
            steps += h["nsys"] + 1
            digest_items.append(W.public_hist(h))
            if h["outcome"] != "ok" or h["steps"][0]["outcome"] != "ok" or any(lv == "ERROR" for lv, m, tb in h["logs"]) \
                    or h["steps"][0].get("failed_files"):
                # organic failure (C14's subject): nothing to compare in this run
                return _res(plan, [], probes, steps, digest_items, organic=1)
            for f in run:
                data = h["snap"]["files"].get("out/" + f["name"])
                if data is None:
                    V.append({"prop": "C12", "tag": "file-missing", "detail": "layout %d run %d: no output for %s" % (li, ri, f["name"])})
                    continue
                itext = W._decode_universal(disk["files"]["in/" + f["name"]])
                try:
                    otext = data.decode("utf-8")
                except UnicodeDecodeError:
                    V.append({"prop": "C12", "tag": "output-undecodable", "detail": "layout %d: %s" % (li, f["name"])})
                    continue
                nv = len(V)
                _structure(lambda prop, tag, detail, key=None: V.append({"prop": prop, "tag": tag, "detail": "layout %d run %d: %s" % (li, ri, detail)}),
                           f["name"], itext, otext)
                if len(V) > nv and any(v["tag"] == "line-count" for v in V[nv:]):
                    continue
                il, ol = itext.split("\n"), otext.split("\n")
                for k, idx in enumerate(f["lines"]):
                    if k < len(ol):
                        term = "\n" if k < len(ol) - 1 else ""
                        res[idx] = (ol[k] + term, il[k], ri)
        results.append(res)
    a, b = results
    for idx, ln in enumerate(plan["pool"]):
        src = G.render_line(dict(ln, eol=""), "a", plan["secrets"])
        roles = {s[0] for s in ln["segs"]}
        for li, res in enumerate(results):
            if idx not in res:
                continue
            out = res[idx][0].rstrip("\n")
            if roles <= {"lit"}:
                probes["benign_checked"] += 1
                if out != src and not (collapse and out == _collapse(src)):
                    V.append({"prop": "C12", "tag": "benign-line-changed",
                              "detail": "layout %d: benign line %r came out as %r (features %s)" % (li, src, out, _feat(o))})
            else:
                probes["sensitive_lines"] += 1
                if ln.get("kind") == "scrub" and o["pwd"]:
                    continue
                toks = extract(ln, out, plan["secrets"], collapse)
                for seg, tok in (toks or []):
                    if seg[0] in ("k4", "rw") and tok != seg[1]:
                        V.append({"prop": "C12", "tag": "kept-token-changed",
                                  "detail": "layout %d: %r (netmask-shaped or preserved) came out as %r in %r" % (li, seg[1], tok, out[:120])})
                if toks is None:
                    V.append({"prop": "C12", "tag": "context-changed",
                              "detail": "layout %d: non-sensitive text of %r was not carried over: %r (features %s)" % (li, src, out, _feat(o))})
        if idx in a and idx in b:
            probes["locality_compared"] += 1
            oa, ob = a[idx][0].rstrip("\n"), b[idx][0].rstrip("\n")
            has_sec = "sec" in roles and o["pwd"]
            if not has_sec:
                if oa != ob:
                    V.append({"prop": "C12", "tag": "line-depends-on-neighbours",
                              "detail": "line %r came out as %r in layout A and %r in layout B" % (src, oa, ob)})
            elif ln.get("kind") != "scrub":
                ta, tb = extract(ln, oa, plan["secrets"], collapse), extract(ln, ob, plan["secrets"], collapse)
                if ta is not None and tb is not None:
                    for (seg, x), (_, y) in zip(ta, tb):
                        probes["tokens_compared"] += 1
                        if seg[0] == "sec":
                            cx, cy = D.decode_any(x)[1], D.decode_any(y)[1]
                            if cx != cy:
                                V.append({"prop": "C12", "tag": "line-depends-on-neighbours",
                                          "detail": "line %r: replacement class %s (%r) in layout A, %s (%r) in layout B" % (src, cx, x, cy, y)})
                        elif x != y:
                            V.append({"prop": "C12", "tag": "line-depends-on-neighbours",
                                      "detail": "line %r: token %r in layout A, %r in layout B" % (src, x, y)})
    return _res(plan, V, probes, steps, digest_items, organic=0)


def _feat(o):
    return [k for k in ("pwd", "ip", "words", "as") if o.get(k)]


def _collapse(s):
    lead = s[: len(s) - len(s.lstrip())]
    tail = s[len(s.rstrip()):]
    if not s.strip():
        return s
    return lead + " ".join(s.split()) + tail


def _res(plan, V, probes, steps, digest_items, organic):
    seen, out = set(), []
    for v in V:
        k = (v["prop"], v["tag"])
        if k not in seen:
            seen.add(k)
            out.append(v)
    la, lb = plan["layouts"]
    fa = [f["lines"] for r_ in la["runs"] for f in r_]
    fb = [f["lines"] for r_ in lb["runs"] for f in r_]
    order_differs = [i for f in fa for i in f] != [i for f in fb for i in f]
    bounds_differ = [len(f) for f in fa] != [len(f) for f in fb]
    sig = core.digest([_feat(plan["opts"]), [len(f) for f in fa], [len(f) for f in fb], len(la["runs"]), len(lb["runs"]),
                       la["entry"], lb["entry"], [sorted({s[0] for s in ln["segs"]}) for ln in plan["pool"]]])
    return {"violations": out, "digest": core.digest(digest_items), "sig": sig,
            "nontrivial": {"C12": order_differs and bounds_differ and not organic}, "faults": {}, "probes": probes, "steps": steps,
            "organic_failures": organic,
            "sample": {"features": _feat(plan["opts"]), "layoutA": fa, "layoutB": fb, "entries": [la["entry"], lb["entry"]],
                       "pool": [G.render_line(dict(ln, eol=""), "a", plan["secrets"])[:60] for ln in plan["pool"][:6]]}}


def shrink_candidates(plan):
    if plan.get("pre_b"):
        p = copy.deepcopy(plan)
        p["pre_b"] = None
        yield p
    n = len(plan["pool"])
    if n > 1:
        for kept in core.drop_chunks(list(range(n)), 1):
            keep = set(kept)
            remap = {old: new for new, old in enumerate(kept)}
            p = copy.deepcopy(plan)
            p["pool"] = [copy.deepcopy(plan["pool"][i]) for i in kept]
            ok = True
            for lay in p["layouts"]:
                for run in lay["runs"]:
                    for f in run:
                        f["lines"] = [remap[i] for i in f["lines"] if i in keep]
                lay["runs"] = [[f for f in run if f["lines"]] for run in lay["runs"]]
                lay["runs"] = [run for run in lay["runs"] if run]
                if not lay["runs"]:
                    ok = False
            if ok:
                yield p
    o = plan["opts"]
    for key, simple in (("pwd", False), ("ip", False), ("words", None), ("as", None), ("pp", None), ("pa", None),
                        ("private", False), ("hb", None), ("salt", "s")):
        if o.get(key) != simple:
            p = copy.deepcopy(plan)
            p["opts"][key] = simple
            if W.any_feature(p["opts"]):
                yield p
    for li, lay in enumerate(plan["layouts"]):
        if lay["entry"] != "files":
            p = copy.deepcopy(plan)
            p["layouts"][li]["entry"] = "files"
            yield p
        for ri, run in enumerate(lay["runs"]):
            for fi, f in enumerate(run):
                if f["crlf"] or not f["final_newline"]:
                    p = copy.deepcopy(plan)
                    p["layouts"][li]["runs"][ri][fi]["crlf"] = False
                    p["layouts"][li]["runs"][ri][fi]["final_newline"] = True
                    yield p
    for i, ln in enumerate(plan["pool"]):
        if len(ln["segs"]) > 1 or ln["segs"][0] != ["lit", "x"]:
            p = copy.deepcopy(plan)
            p["pool"][i] = {"segs": [["lit", "x"]]}
            yield p
