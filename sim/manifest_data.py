"""Texts for MANIFEST.json (kept next to the registry so both stay in step)."""

_TECH = "deterministic simulation with fault injection: "

_ALL = {
    "C02": {
        "design_ref": "DESIGN.md §5 C02",
        "technique": _TECH + "seeded request histories on live anonymizers across simulated process restarts; every answer "
                             "undone/redone by a cold twin in another simulated process; file level: anonymize, crash or "
                             "finish, undo in a new process",
        "level_text": "Seeded search over request histories (5-40 requests, restarts, forks, both directions, result references "
                      "such as deanon(F(x)) in a process that never saw x) and over file-level anonymize/undo process pairs with "
                      "crash points. Exploration is the right level: the property quantifies over histories and restarts, which "
                      "are sampled, not enumerated.",
        "level_note": "Trusted: the cold twin is the same netconan code in a fresh simulated process; SimFS errno semantics; "
                      "IPv4-embedded IPv6 spellings are excluded (C06, not applicable here).",
    },
    "C03": {
        "design_ref": "DESIGN.md §5 C03",
        "technique": _TECH + "seeded request histories against a cold-twin reference plus a white-box memo cross-invariant; "
                             "file level: same tree together / separately / split / reordered / after failures and crashes",
        "level_text": "Seeded search over histories of the shared memo (anonymize, undo, text-level replacement, dumps, restarts, "
                      "forks, noise instances with other salts/families in the same process), each answer compared step by step "
                      "with a brand-new anonymizer; after every step every new memo entry is compared with the cold definition.",
        "level_note": "Trusted: cold twin = same code, fresh process, single question; the memo cross-invariant is white-box and "
                      "skipped if the attribute disappears.",
    },
    "C17": {
        "design_ref": "DESIGN.md §5 C17",
        "technique": _TECH + "dump taken after arbitrary request/file histories (failures in the middle, both families, host-bit "
                             "caching path) and compared with what was applied and with the cold twin",
        "level_text": "Seeded search: dumps at arbitrary points of request histories, and `-d` after multi-file runs with listing "
                      "permutations and injected file failures; every replaced address must be listed with the image used, no "
                      "original/image twice, every listed pair equal to the cold twin's answer.",
        "level_note": "Trusted: dump parser (one `orig<TAB>image` per line), generated address positions in the output, cold twin.",
    },
}

_ALL["C16"] = {
    "design_ref": "DESIGN.md §5 C16",
    "technique": _TECH + "in-memory file system behind the syscall primitives with seeded fault injection (undecodable bytes, "
                         "occupied output paths, ENOENT/EACCES/EIO/ENOSPC at chosen bytes, mkdir races, crash and interrupt at "
                         "chosen syscalls, a temporary directory on a second simulated file system with EXDEV on rename), listing-order "
                         "schedules, left-overs of earlier runs, four entry points, stream-twin and baseline-run oracles",
    "level_text": "Seeded search over (tree, entry point, listing order, buffering knobs, 0-3 faults). Invariants that hold at every "
                  "instant (inputs never touched, nothing written outside the mirror set) are checked over the whole syscall trace, "
                  "including crashed and interrupted runs; finished runs are checked for the one-to-one mapping, reporting, "
                  "entry-point agreement against the stream API fed the recorded line history, and isolation against a real "
                  "baseline run on the tree without the failing files; a file reported as failed needs a cause the plan put there.",
    "level_note": "Trusted: SimFS errno model (fault-free behaviour cross-checked against the real file system by "
                  "`check selftest-simfs`); CLI->kwargs translation table of the harness; an unlistable sub-directory is an "
                  "observation only.",
}

_ALL["C08"] = {
    "design_ref": "DESIGN.md §5 C08",
    "technique": _TECH + "seeded secret histories across lines, line forms, quoting variants, $9$ re-encodings, files and failing "
                         "files (storage faults biased onto the file that first introduces a reused secret); independent "
                         "decoders recover the pseudonym index of every replacement in every durable output",
    "level_text": "Seeded search over histories of the per-run lookup: identity -> pseudonym index must be a function and injective "
                  "over all tokens of all durable outputs, including partial outputs of files that failed part-way.",
    "level_note": "Trusted: passlib decoders/verifiers and the own $9$ decoder; template list validated by `check selftest-grammar`.",
}
_ALL["C07"] = {
    "design_ref": "DESIGN.md §5 C07",
    "technique": _TECH + "paired deterministic worlds (non-interference): the same plan executed twice with the secret values "
                         "consistently renamed; outputs, dump and INFO+ log records compared, under injected faults and after "
                         "unrelated earlier anonymizers in the same process",
    "level_text": "Scoped claim: the history, log-channel, fault-path and leftover-process-state facets are decided by simulation "
                  "for the sampled line forms and secret classes; the full line-form x secret-value space is sampled, not decided.",
    "level_note": "Trusted: independent classifier pairs secrets by class and length; planted secrets are long and unique; D4 "
                  "(`enable secret level 15 5 <hash>`) and D6 (all-digit secret before a reserved word) shapes are not generated.",
}
_ALL["C13"] = {
    "design_ref": "DESIGN.md §5 C13",
    "technique": _TECH + "every nondeterminism source behind a seam (entropy, random, hash-set order, clock, pid, buffer sizes, "
                         "earlier activity in the same process) and varied between two executions of one scenario, with "
                         "single-dimension attribution; real child interpreters with other PYTHONHASHSEEDs and PYTHONOPTIMIZE levels; "
                         "caller threads of a threaded host interleaved by a seeded baton scheduler at line events",
    "level_text": "Seeded search over (scenario, varied dimensions, pre-history); byte-identical output tree and dump demanded; "
                  "the no-salt scenario re-runs with the reported salt.",
    "level_note": "Trusted: the seams cover the sources netconan uses today plus clock/pid/urandom as negative controls; a source "
                  "introduced elsewhere is only seen by the real-interpreter runs.",
}
_ALL["C10"] = {
    "design_ref": "DESIGN.md §5 C10",
    "technique": _TECH + "word lists executed under every alternation order (hash-seed seam) and after unrelated earlier "
                         "anonymizers in the same process (leftover global state), checked token by token",
    "level_text": "Scoped claim: the 'all process hash seeds' and 'whatever ran earlier in this process' dimensions are decided by "
                  "simulation for sampled word lists and lines; the line x word-list space itself is sampled.",
    "level_note": "Trusted: built-in reserved list is read from the tree under test in a fresh simulated process; clause (3) only "
                  "for non-overlapping lists.",
}

_ALL["C12"] = {
    "design_ref": "DESIGN.md §5 C12",
    "technique": _TECH + "one line pool laid out in two ways (permutation, file boundaries, split over simulated processes) and "
                         "compared line by line; reader/writer seams with CRLF / missing final newline; prefix-only loss under "
                         "injected write faults and crashes",
    "level_text": "Scoped claim: locality (a line's output does not depend on its neighbours, files or runs), structure and "
                  "prefix-only loss are decided by simulation over sampled pools; token conservation only on the fixed benign "
                  "vocabulary and the literal context of generated lines.",
    "level_note": "Trusted: the generator knows each segment's role; extraction matches literals with flexible inner whitespace only "
                  "when the password or word stage is on.",
}

CHECKS = []

NOT_APPLICABLE = [
    {"property_id": "C01", "reason": "pure function of (salt, options, address pair); its only state, the memo, is C03's subject; deciding it is input enumeration/proof, not simulation"},
    {"property_id": "C04", "reason": "pure function of (options, address); seeds are written once in the constructor, no history, schedule or fault can vary the answer"},
    {"property_id": "C05", "reason": "pure function of (options, address): mask test and membership test; nothing to schedule or fail"},
    {"property_id": "C06", "reason": "regular-expression tokenisation of one line; a pure function of the line (the embedded-IPv4 defect is an input-space defect)"},
    {"property_id": "C09", "reason": "pure function of one secret and its format class (its only nondeterminism, the random sha512 salt, is C13's finding)"},
    {"property_id": "C11", "reason": "replacement = f(salt, number) computed once at construction, matching is one regex on one line; pure"},
    {"property_id": "C14", "reason": "totality is a universally quantified statement about a pure function of one line/salt (input fuzzing); the consequence for the run is C16's subject"},
    {"property_id": "C15", "reason": "differential test of one deterministic pipeline against another over (feature subset, input); no state, order or fault is varied"},
    {"property_id": "C18", "reason": "pure encode/decode pair"},
    {"property_id": "C19", "reason": "finite table of flag combinations; enumeration of configurations, nothing to schedule or fail"},
]

NOTES = ("All claimed checks are exploration-level deterministic simulations (see DESIGN.md; §10 is the build report). One "
         "entry script: /verif/check <ID> --tier quick|thorough; VERIF_SEED selects the seed batch; VERIF_REPO points the checks "
         "at a scratch copy (self-tests only). Exit 2 = harness error, never reported as success. Six genuine defects were "
         "repaired in /repo (fix: commits 40a7ea6, 5bbf938, ab3e6dd, f3aaac2, 08553b7, 6cea28f; recorded as `fixed` in "
         "known_findings.json, witnesses pinned under corpus/); one is recorded as a finding (D6, property C07: the check prints "
         "KNOWN-FINDING for its pinned witness and exits 0). Self-tests: check selftest-determinism | selftest-simfs | "
         "selftest-grammar | selftest-sensitivity (mutants/catalogue.json) | selftest-seeded (165 independent seeded changes "
         "under seeded/).")


CLAIMED = ["C02", "C03", "C07", "C08", "C10", "C12", "C13", "C16", "C17"]
PENDING = []

CHECKS[:] = [dict(_ALL[p], property_id=p) for p in CLAIMED]
NOT_APPLICABLE += [{"property_id": p, "reason": "claimed in DESIGN.md; its check is not built yet in this commit (work in "
                                                "progress, not a not-applicable verdict)"} for p in PENDING]
NOT_APPLICABLE.sort(key=lambda d: d["property_id"])
