"""Seeded batch runner, minimiser, replay files, known findings and evidence writer.

A *family* module provides
    NAME                      str
    generate(seed, tier)      -> plan (JSON-able dict); every random choice is drawn here
    check(plan)               -> result dict (pure function of plan and the code under test):
        violations : [ {prop, tag, detail} ]
        digest     : hash of the observable history (determinism self-test)
        sig        : schedule signature (distinctness measure)
        nontrivial : {prop: bool}
        faults     : {kind: fired count}
        probes     : {name: count}
        steps      : logical steps (syscalls + API ops)
    shrink_candidates(plan)   -> iterator of smaller plans
"""
import concurrent.futures as cf
import copy
import faulthandler
import hashlib
import importlib
import json
import multiprocessing as mp
import os
import subprocess
import sys
import time
import traceback

VERIF = os.path.dirname(os.path.dirname(os.path.abspath(__file__)))
PY = sys.executable
RUN_WALL_CAP = 120          # seconds for a single simulated run before the worker is declared hung


class HarnessError(Exception):
    pass


def canon(obj):
    return json.dumps(obj, sort_keys=True, ensure_ascii=True, separators=(",", ":"), default=_default)


def _default(o):
    if isinstance(o, (bytes, bytearray)):
        return {"__b__": bytes(o).decode("latin-1")}
    if isinstance(o, (set, frozenset)):
        return sorted(o, key=repr)
    if isinstance(o, tuple):
        return list(o)
    raise TypeError(type(o))


def digest(obj):
    return hashlib.sha256(canon(obj).encode()).hexdigest()[:16]


def family(name):
    return importlib.import_module("sim.fam_" + name)


def run_seed(base_seed, index):
    return base_seed * 1_000_003 + index


# ---------------------------------------------------------------------------
# one run (in a worker)
# ---------------------------------------------------------------------------
def _run_one(args):
    fam_name, seed, tier, opts = args
    fam = family(fam_name)
    faulthandler.dump_traceback_later(RUN_WALL_CAP, exit=True)
    try:
        plan = fam.generate(seed, tier, **(opts or {}))
        res = fam.check(plan)
    except BaseException as e:  # harness exception, classified apart from a violation
        return {"seed": seed, "error": "%s: %s\n%s" % (type(e).__name__, e, traceback.format_exc())}
    finally:
        faulthandler.cancel_dump_traceback_later()
    res["seed"] = seed
    if res["violations"]:
        res["plan"] = {"__reduce_to__": res.pop("reduce_to")} if res.get("reduce_to") else plan
    elif opts and opts.get("_keep_plan"):
        res["plan"] = plan
    return res


def _run_chunk(chunk):
    return [_run_one(a) for a in chunk]


def run_batch(fam_name, seeds, tier, workers, opts=None, keep_samples=2, deadline=None):
    """Execute the seeds; returns (results in seed order, timed_out flag)."""
    seeds = list(seeds)
    if not seeds:
        return [], False
    args = [(fam_name, s, tier, opts) for s in seeds]
    if workers <= 1:
        out = []
        for a in args:
            if deadline and time.perf_counter() > deadline:
                return out, True
            out.append(_run_one(a))
        return out, False
    csize = max(1, min(25, len(args) // (workers * 4) or 1))
    chunks = [args[i:i + csize] for i in range(0, len(args), csize)]
    out = {}
    timed_out = False
    broken = None
    ctx = mp.get_context("fork")
    with cf.ProcessPoolExecutor(max_workers=workers, mp_context=ctx) as ex:
        futs = {}
        it = iter(enumerate(chunks))
        pending = set()

        def submit_more():
            while len(pending) < workers * 2:
                try:
                    i, ch = next(it)
                except StopIteration:
                    return
                f = ex.submit(_run_chunk, ch)
                futs[f] = i
                pending.add(f)

        submit_more()
        while pending:
            done, _ = cf.wait(pending, timeout=RUN_WALL_CAP * 2, return_when=cf.FIRST_COMPLETED)
            if not done:
                raise HarnessError("worker pool made no progress for %d s" % (RUN_WALL_CAP * 2))
            for f in done:
                pending.discard(f)
                try:
                    out[futs[f]] = f.result()
                except cf.process.BrokenProcessPool as e:
                    broken = repr(e)
            if broken:
                break
            if deadline and time.perf_counter() > deadline:
                timed_out = True
                for f in pending:
                    f.cancel()
                break
            submit_more()
    res = []
    for i in sorted(out):
        res.extend(out[i])
    if broken:
        # a run that never finishes is a harness error (exit 2) - unless runs completed before it already violate the
        # property, which is then what gets reported (a change that stalls on one input usually misbehaves on others)
        if not any(x.get("violations") for x in res):
            raise HarnessError("a worker died (a run did not finish within %d s, or crashed): %s" % (RUN_WALL_CAP, broken))
        print("note: a worker died (a run did not finish within %d s, or crashed); reporting the violations found before that" % RUN_WALL_CAP)
        return res, True
    return res, timed_out


# ---------------------------------------------------------------------------
# shrinking
# ---------------------------------------------------------------------------
def has_violation(res, prop, tag):
    return any(v["prop"] == prop and v["tag"] == tag for v in res.get("violations", []))


def shrink(fam, plan, prop, tag, budget=400, wall=240):
    """Greedy structural minimisation keeping the same (property, oracle tag)."""
    t0 = time.perf_counter()
    execs = 0
    cur = plan
    improved = True
    while improved and execs < budget and time.perf_counter() - t0 < wall:
        improved = False
        for cand in fam.shrink_candidates(cur):
            if execs >= budget or time.perf_counter() - t0 >= wall:
                break
            execs += 1
            try:
                r = fam.check(cand)
            except BaseException:
                continue
            if has_violation(r, prop, tag):
                cur = cand
                improved = True
                break
    return cur, execs


def plan_size(plan):
    return len(canon(plan))


def drop_chunks(lst, min_keep=0):
    """ddmin-style candidates for one list: halves, quarters, ..., single elements."""
    n = len(lst)
    if n <= min_keep:
        return
    size = n // 2
    seen = set()
    while size >= 1:
        for start in range(0, n, size):
            kept = lst[:start] + lst[start + size:]
            if len(kept) < min_keep:
                continue
            k = (start, size)
            if k in seen:
                continue
            seen.add(k)
            yield kept
        size //= 2


# ---------------------------------------------------------------------------
# replay files
# ---------------------------------------------------------------------------
def write_replay(prop, fam_name, plan, viol, res_digest, seed, note=""):
    d = os.path.join(VERIF, "replays")
    os.makedirs(d, exist_ok=True)
    path = os.path.join(d, "%s-%s-%s.json" % (prop, fam_name, seed))
    with open(path, "w") as f:
        json.dump({"property": prop, "family": fam_name, "seed": seed, "plan": plan,
                   "expect": {"tag": viol["tag"], "detail": viol["detail"], "digest": res_digest},
                   "note": note}, f, indent=1, sort_keys=True, default=_default)
    return path


def load_replay(path):
    with open(path) as f:
        return json.load(f, object_hook=_unbytes)


def _unbytes(d):
    if set(d) == {"__b__"}:
        return d["__b__"].encode("latin-1")
    return d


def replay_here(path):
    rp = load_replay(path)
    fam = family(rp["family"])
    res = fam.check(rp["plan"])
    same = [v for v in res["violations"] if v["prop"] == rp["property"] and v["tag"] == rp["expect"]["tag"]]
    return rp, res, same


def replay_fresh(path, hashseed="0"):
    """Re-execute a replay file in a fresh interpreter; returns (reproduced, digest, output)."""
    env = dict(os.environ, PYTHONHASHSEED=str(hashseed), PYTHONDONTWRITEBYTECODE="1")
    p = subprocess.run([PY, os.path.join(VERIF, "check"), "replay", path, "--json"], env=env,
                       capture_output=True, text=True, timeout=600)
    line = [l for l in p.stdout.splitlines() if l.startswith("REPLAY-JSON ")]
    if not line:
        return False, None, p.stdout + p.stderr
    d = json.loads(line[-1][len("REPLAY-JSON "):])
    return d["reproduced"], d["digest"], p.stdout


def run_child_world(world, hashseed, optimize=0):
    """Execute a world in a real child interpreter started with PYTHONHASHSEED=hashseed (and, when asked, with
    PYTHONOPTIMIZE: assertions and docstrings stripped, as under `python -O` / `-OO`)."""
    env = dict(os.environ, PYTHONHASHSEED=str(hashseed), PYTHONDONTWRITEBYTECODE="1", VERIF_NO_REEXEC="1")
    env.pop("PYTHONOPTIMIZE", None)
    if optimize:
        env["PYTHONOPTIMIZE"] = str(optimize)
    p = subprocess.run([PY, os.path.join(VERIF, "check"), "exec-world"], input=canon(world), env=env,
                       capture_output=True, text=True, timeout=300)
    line = [l for l in p.stdout.splitlines() if l.startswith("WORLD-JSON ")]
    if not line:
        raise HarnessError("child interpreter failed: %s\n%s" % (p.stdout[-1500:], p.stderr[-1500:]))
    return json.loads(line[-1][len("WORLD-JSON "):], object_hook=_unbytes)


# ---------------------------------------------------------------------------
# known findings
# ---------------------------------------------------------------------------
def load_known():
    path = os.path.join(VERIF, "known_findings.json")
    if not os.path.exists(path):
        return {"findings": [], "fixed": []}
    with open(path) as f:
        return json.load(f)


def match_known(known, prop, viol):
    """A violation is a listed finding only when property, tag and witness key all match."""
    key = viol.get("key")
    for k in known.get("findings", []):
        if k["property"] == prop and k["tag"] in ("*", viol["tag"]) and (k.get("key") is None or k["key"] == key):
            return k
    return None


# ---------------------------------------------------------------------------
# evidence
# ---------------------------------------------------------------------------
class Agg:
    """Aggregates run results for one property."""

    def __init__(self, prop):
        self.prop = prop
        self.evals = 0
        self.sigs = set()
        self.nt_sigs = set()
        self.faults = {}
        self.probes = {}
        self.steps = 0
        self.samples = []
        self.errors = []
        self.violations = []        # (family, seed, plan, viol, digest)
        self.per_family = {}
        self.organic_failures = 0

    def add(self, fam_name, res):
        if "error" in res:
            self.errors.append((fam_name, res["seed"], res["error"]))
            return
        self.evals += res.get("evals", 1)
        pf = self.per_family.setdefault(fam_name, {"runs": 0, "steps": 0, "nontrivial": 0})
        pf["runs"] += 1
        pf["steps"] += res.get("steps", 0)
        self.steps += res.get("steps", 0)
        sig = fam_name + ":" + str(res.get("sig"))
        self.sigs.add(sig)
        if res.get("nontrivial", {}).get(self.prop):
            pf["nontrivial"] += 1
            self.nt_sigs.add(sig)
        for k, v in res.get("faults", {}).items():
            self.faults[k] = self.faults.get(k, 0) + v
        for k, v in res.get("probes", {}).items():
            self.probes[k] = self.probes.get(k, 0) + v
        self.organic_failures += res.get("organic_failures", 0)
        if res.get("sample") is not None and len([s for s in self.samples if s["family"] == fam_name]) < 2:
            self.samples.append({"family": fam_name, "seed": res["seed"], "case": res["sample"]})
        for v in res["violations"]:
            if v["prop"] == self.prop:
                self.violations.append((fam_name, res["seed"], res.get("plan"), v, res.get("digest")))


def write_evidence(prop, tier, seed, agg, wall, rule, assumptions, real_stub, extra=None, nviol=0):
    d = os.environ.get("VERIF_EVIDENCE_DIR") or os.path.join(VERIF, "evidence")
    os.makedirs(d, exist_ok=True)
    hours = max(wall, 1e-9) / 3600.0
    cov = {
        "evaluations": agg.evals,
        "distinct_nontrivial": len(agg.nt_sigs),
        "distinct_signatures": len(agg.sigs),
        "rule": rule,
        "samples": agg.samples[:4] or [{"note": "no sample recorded"}],
        "runs_per_hour": int(agg.evals / hours),
        "seeds_per_hour": int(sum(p["runs"] for p in agg.per_family.values()) / hours),
        "simulated_time": {"unit": "logical steps (syscalls + API requests; netconan has no timers)",
                           "steps": agg.steps},
        "faults_fired": dict(sorted(agg.faults.items())),
        "reach_probes": dict(sorted(agg.probes.items())),
        "per_family": agg.per_family,
        "organic_failures": agg.organic_failures,
        "harness_errors": len(agg.errors),
        "components": real_stub,
        "exhaustive": False,
    }
    if extra:
        cov.update(extra)
    ev = {"property_id": prop, "tier": tier, "seed": seed, "level": "exploration", "coverage": cov,
          "assumptions": assumptions, "wall_s": round(wall, 2), "violations": nviol}
    path = os.path.join(d, "%s.json" % prop)
    tmp = path + ".tmp"
    with open(tmp, "w") as f:
        json.dump(ev, f, indent=1, sort_keys=True, default=_default)
    os.replace(tmp, path)
    return path


REAL_STUB = {
    "real": ["netconan (all modules, imported from the working tree)", "CPython io stack above the raw layer "
             "(TextIOWrapper, BufferedReader/Writer)", "os.walk, os.makedirs, os.path, pathlib", "re, ipaddress, logging",
             "bidict, passlib, configargparse"],
    "stub": ["kernel file system: stat/lstat/scandir/listdir/mkdir/rmdir/unlink/rename/open and raw file objects (SimFS)",
             "process creation: fresh import of the netconan package (real child interpreters where stated)",
             "hash seed: order key on the set feeding the sensitive-word alternation (real PYTHONHASHSEED in child runs)",
             "entropy: random.seed, random._urandom/os.urandom -> keyed streams", "clock and pid"],
}
