"""World executor: a disk, a sequence of simulated netconan processes, and what they leave behind.

    world = {"disk": {"dirs": [...], "files": {rel: bytes}}, "procs": [pspec, ...]}
    pspec = {"knobs": {...}, "faults": [...], "pre": [prehistory items], "steps": [step, ...]}
    step  = {"entry": "cli"|"files"|"file"|"io", "opts": {...}, "in": rel, "out": rel, "dump": rel|None, ...}

`run_world` is a pure function of its argument and the code under test.
"""
import copy
import io
import os
import re
import posixpath
import sys

from .proc import SimProcess
from .simfs import SimCrash, SimFS, SimUnsupported

DEFAULT_OPTS = {"pwd": False, "ip": False, "undo": False, "salt": "saltysalt", "words": None, "as": None,
                "reserved": None, "pp": None, "pa": None, "private": False, "hb": None}


def norm_opts(o):
    d = dict(DEFAULT_OPTS)
    d.update({k: v for k, v in (o or {}).items() if not k.startswith("_")})
    return d


_LONG = {"-i": "--input", "-o": "--output", "-a": "--anonymize-ips", "-p": "--anonymize-passwords", "-u": "--undo",
         "-s": "--salt", "-w": "--sensitive-words", "-n": "--as-numbers", "-r": "--reserved-words", "-d": "--dump-ip-map",
         "-l": "--log-level"}


_CFG_SAFE = re.compile(r"[A-Za-z0-9.,/:_-]+\Z")


def cli_argv(o, inp, out, dump=None, style=0, cfg_sink=None, log_level=None):
    """The command line for an option set.  `style` (from the plan's knobs) picks long or short option names, the
    `--opt=value` spelling and the order of the groups; all spellings are equivalent for the documented CLI.
    With bit 8 (and a `cfg_sink` that stores a text and returns its path) the options whose values are plain are given
    in a configuration file instead (`-c`), next to decoy values for options that stay on the command line, which wins."""
    argv = _cli_groups(o, inp, out, dump)
    if log_level:
        argv.append(["-l", log_level])        # the run's logging level, asked for on the command line as well
    if style & 8 and cfg_sink is not None:
        keep, cfg = [], ["# written by the harness"]
        for g in argv:
            name = _LONG.get(g[0], g[0])
            if g[0] in ("-i", "-o", "-d") or (len(g) == 2 and not _CFG_SAFE.match(g[1])):
                keep.append(g)
                if g[0] == "-s":
                    cfg.append("salt = decoy-salt-from-config")
            elif len(g) == 1:
                cfg.append("%s = true" % name[2:])
            else:
                cfg.append("%s = %s" % (name[2:], g[1]))
        argv = keep + [["-c", cfg_sink("\n".join(cfg) + "\n")]]
    style &= 7
    if style:
        groups = []
        for g in argv:
            g = list(g)
            if style & 1 and g[0] in _LONG:
                g[0] = _LONG[g[0]]
            if style & 2 and len(g) == 2 and g[0].startswith("--") and not g[1].startswith("-"):
                g = [g[0] + "=" + g[1]]
            groups.append(g)
        if style & 4:
            groups = groups[::-1]
        argv = groups
    return [x for g in argv for x in g]


def _cli_groups(o, inp, out, dump=None):
    o = norm_opts(o)
    argv = [["-i", inp], ["-o", out]]
    if o["ip"]:
        argv.append(["-a"])
    if o["pwd"]:
        argv.append(["-p"])
    if o["undo"]:
        argv.append(["-u"])
    if o["salt"] is not None:
        argv.append(["-s", o["salt"]])
    if o["words"] is not None:
        argv.append(["-w", ",".join(o["words"])])
    if o["as"] is not None:
        argv.append(["-n", ",".join(o["as"])])
    if o["reserved"] is not None:
        argv.append(["-r", ",".join(o["reserved"])])
    if o["pp"] is not None:
        argv.append(["--preserve-prefixes", ",".join(o["pp"])])
    if o["pa"] is not None:
        argv.append(["--preserve-addresses", ",".join(o["pa"])])
    if o["private"]:
        argv.append(["--preserve-private-addresses"])
    if o["hb"] is not None:
        argv.append(["--preserve-host-bits", str(o["hb"])])
    if dump is not None:
        argv.append(["-d", dump])
    return argv


RFC1918 = ["10.0.0.0/8", "172.16.0.0/12", "192.168.0.0/16"]


def api_kwargs(o, dump=None):
    """anonymize_files keyword arguments equivalent to the command line built by cli_argv."""
    o = norm_opts(o)
    pa = None if o["pa"] is None else list(o["pa"])
    if o["private"]:
        pa = list(RFC1918) if pa is None else pa + list(RFC1918)
    hb = 8 if o["hb"] is None else o["hb"]
    return dict(anon_pwd=o["pwd"], anon_ip=o["ip"], salt=o["salt"], dumpfile=dump,
                sensitive_words=None if o["words"] is None else list(o["words"]),
                undo_ip_anon=o["undo"], as_numbers=None if o["as"] is None else list(o["as"]),
                reserved_words=None if o["reserved"] is None else list(o["reserved"]),
                preserve_prefixes=None if o["pp"] is None else list(o["pp"]),
                preserve_networks=pa, preserve_suffix_v4=hb, preserve_suffix_v6=hb)


def fa_kwargs(o):
    k = api_kwargs(o)
    k.pop("dumpfile")
    return k


def any_feature(o):
    o = norm_opts(o)
    return bool(o["pwd"] or o["ip"] or o["undo"] or o["words"] or o["as"])


def walk_order(fs, in_rel):
    """Processing order of a directory run, computed independently from the SimFS listing order."""
    out = []
    root = fs.abs(in_rel)

    def rec(d):
        names = fs._listing(d)
        files = [n for n in names if (d + "/" + n) in fs.files]
        dirs = [n for n in names if (d + "/" + n) in fs.dirs]
        for f in files:
            if not f.startswith("."):
                out.append(fs.rel(d + "/" + f))
        for s in dirs:
            rec(d + "/" + s)

    rec(root)
    return out


def mirror(in_rel, out_rel, path):
    return posixpath.normpath(posixpath.join(out_rel, posixpath.relpath(path, in_rel)))


class FailingWriter(io.StringIO):
    """A caller-supplied text writer whose n-th write() raises (disk full on the caller's side of the stream API)."""

    def __init__(self, nth):
        super().__init__()
        self._left = nth

    def write(self, s):
        if self._left <= 0:
            raise OSError(28, "No space left on device (caller's writer)")
        self._left -= 1
        return super().write(s)


class ShortReadStringIO(io.StringIO):
    """A text reader whose read(n) returns at most k characters per call (legal for any io reader); readline,
    readlines and iteration behave normally."""

    def __init__(self, text, k):
        super().__init__(text)
        self._k = k

    def read(self, n=-1):
        if n is None or n < 0:
            return super().read()
        return super().read(min(n, self._k))


def norm_paths(msg):
    """netconan builds paths like /simfs/in/./a.cfg (and /simfs/in/././a.cfg when the argument ends in "/."); collapse them."""
    import re
    return re.sub(r"(?:/\.)+(?=/)", "", msg).replace("//", "/")


def _decode_universal(data):
    return io.TextIOWrapper(io.BytesIO(data), encoding="utf-8", newline=None).read()


def run_step(fs, proc, step, hist):
    """Execute one step inside an already active process; records outcome into hist."""
    o = step["opts"]
    entry = step["entry"]
    inp, out = fs.abs(step["in"]) + step.get("in_suffix", ""), fs.abs(step["out"]) + step.get("out_suffix", "")
    dump = fs.abs(step["dump"]) if step.get("dump") else None
    rec = {"entry": entry, "outcome": "ok", "failed_files": {}, "order": None}
    hist["steps"].append(rec)
    saved_cwd = None
    if step.get("rel_out") and entry in ("cli", "files") and not step.get("out_suffix") and posixpath.dirname(out) in fs.dirs:
        # the output is named relative to the working directory, which lies on the simulated disk for this step
        fs.rel_base = posixpath.dirname(out)
        out = posixpath.basename(out) if step["rel_out"] == "bare" else "./" + posixpath.basename(out)
        saved_cwd = (os.getcwd, os.getcwdb)
        base = fs.rel_base
        os.getcwd, os.getcwdb = (lambda: base), (lambda: base.encode())
    try:
        if entry == "cli":
            def cfg_sink(text):
                # the configuration file lives outside every tree the oracles look at (not traced, not in snapshots)
                path = fs.root + "/.systmp/netconan-%d.cfg" % len(hist["steps"])
                fs.files[path] = bytearray(text.encode("utf-8"))
                return path

            proc.nc.main(cli_argv(o, inp, out, dump, style=(fs.knobs or {}).get("cli_style", 0), cfg_sink=cfg_sink,
                                  log_level=(fs.knobs or {}).get("log_level")))
        elif entry == "files":
            proc.af.anonymize_files(inp, out, **api_kwargs(o, dump))
        elif entry in ("file", "io"):
            # the harness plays the caller: one FileAnonymizer, one call per file, in the plan's order
            fa = proc.af.FileAnonymizer(**fa_kwargs(o))
            files = step.get("files")
            if files is None:
                files = [step["in"]] if inp in fs.files else walk_order(fs, step["in"])
            rec["order"] = list(files)
            inp, out = fs.abs(step["in"]), fs.abs(step["out"])
            single = inp in fs.files
            between = list(step.get("between") or [])
            for nfile, rel in enumerate(files):
                # library use: requests on the live anonymizers between two files
                for b in [b for b in between if b["before"] == nfile]:
                    try:
                        an = fa.anonymizer6 if b.get("v6") else fa.anonymizer4
                        if an is not None:
                            proc.ipa.anonymize_ip_addr(an, b["line"], b["undo"])
                    except Exception as e:
                        rec.setdefault("between_errors", []).append(type(e).__name__)
                src = fs.abs(rel)
                dst = out if single else fs.abs(mirror(step["in"], step["out"], rel))
                fs._mk_all(posixpath.dirname(dst))       # caller-side mkdir, not part of the traced run
                try:
                    if entry == "file":
                        fa.anonymize_file(src, dst)
                    else:
                        text = _decode_universal(bytes(fs.files[src]))
                        wf = next((f for f in fs.faults if f["kind"] == "io_write_fail" and f.get("path") == rel), None)
                        o_io = FailingWriter(wf["nth"]) if wf else io.StringIO()
                        k = (fs.knobs or {}).get("max_read")
                        try:
                            fa.anonymize_io(ShortReadStringIO(text, k) if k else io.StringIO(text), o_io)
                        except OSError:
                            if wf:
                                fs._fire(wf)
                            raise
                        finally:
                            fs.files[dst] = bytearray(o_io.getvalue().encode("utf-8"))
                            fs.handed[dst] = [o_io.getvalue()]
                except Exception as e:
                    rec["failed_files"][rel] = type(e).__name__
            if dump is not None and getattr(fa, "anonymizer4", None) is not None:
                buf = io.StringIO()
                fa.anonymizer4.dump_to_file(buf)
                fa.anonymizer6.dump_to_file(buf)
                fs.files[dump] = bytearray(buf.getvalue().encode("utf-8"))
        else:
            raise ValueError(entry)
    except SimCrash:
        rec["outcome"] = "crash"
        raise
    except KeyboardInterrupt:
        rec["outcome"] = "interrupt"
        raise
    except SimUnsupported:
        raise
    except SystemExit as e:
        rec["outcome"] = "exit:%s" % (e.code,)
    except Exception as e:
        rec["outcome"] = "raised:%s:%s" % (type(e).__name__, str(e)[:120])
    finally:
        if saved_cwd is not None:
            os.getcwd, os.getcwdb = saved_cwd
            fs.rel_base = None


def run_pre(proc, item):
    """Prehistory: unrelated activity in the same process before the observed step."""
    k = item["kind"]
    keep = proc.__dict__.setdefault("keepalive", [])      # a library user holds on to its anonymizers
    if k == "anonymizer":
        try:
            keep.append(proc.af.FileAnonymizer(**fa_kwargs(item["opts"])))
        except Exception:
            pass
    elif k == "lines":
        try:
            fa = proc.af.FileAnonymizer(**fa_kwargs(item["opts"]))
            if not item.get("drop"):
                keep.append(fa)          # otherwise the anonymizer is released as soon as it is done
            fa.anonymize_io(io.StringIO(item["text"]), io.StringIO())
        except Exception:
            pass
    else:
        raise ValueError(k)


def run_proc(fs, pspec, share=None):
    """One simulated process on the surviving disk.  Returns its history."""
    fs.new_process(knobs=pspec.get("knobs"), faults=(pspec.get("faults") if not pspec.get("pre") else []))
    proc = share if share is not None else SimProcess(pspec.get("knobs"))
    hist = {"steps": [], "outcome": "ok"}
    cap_out, cap_err = io.StringIO(), io.StringIO()
    old_out, old_err = sys.stdout, sys.stderr
    sys.stdout, sys.stderr = cap_out, cap_err
    try:
        with fs, proc:
            for item in pspec.get("pre", []):
                if item["kind"] == "run":
                    run_step(fs, proc, item["step"], {"steps": []})
                else:
                    run_pre(proc, item)
            hist["pre_nsys"] = fs.nsys
            if pspec.get("pre"):
                # faults are armed only once the pre-history is over (it is not the run under observation)
                fs.faults = [dict(f, fired=0) for f in (pspec.get("faults") or [])]
            if pspec.get("threads"):
                # a threaded host application: each step is one caller thread with its own anonymizer; the seeded
                # interleaver decides at which line of the package the baton moves (sim/threads.py)
                from .threads import Interleaver
                from .proc import REPO
                il = Interleaver(pspec["threads"]["key"], len(pspec["steps"]), pspec["threads"].get("rate", 0.02), REPO)
                hs = [{"steps": []} for _ in pspec["steps"]]
                errs = il.run([(lambda st=st, h=h: run_step(fs, proc, st, h)) for st, h in zip(pspec["steps"], hs)])
                for h in hs:
                    hist["steps"].extend(h["steps"])
                hist["thread_switches"], hist["thread_points"] = il.switches, il.points
                for e in errs:
                    if isinstance(e, (SimCrash, KeyboardInterrupt)):
                        raise e
                    if e is not None:
                        hist.setdefault("thread_errors", []).append("%s: %s" % (type(e).__name__, e))
            else:
                for step in pspec["steps"]:
                    run_step(fs, proc, step, hist)
    except SimCrash:
        hist["outcome"] = "crash"
    except KeyboardInterrupt:
        hist["outcome"] = "interrupt"
    finally:
        sys.stdout, sys.stderr = old_out, old_err
    hist["stdout"], hist["stderr"] = cap_out.getvalue(), cap_err.getvalue()
    hist["logs"] = list(proc.log.records)
    proc.log.records = []
    hist["trace"] = list(fs.trace)
    hist["mutations"] = list(fs.mutations)
    hist["handed"] = {fs.rel(k): "".join(v) for k, v in fs.handed.items()}
    hist["faults"] = [dict(f) for f in fs.faults]
    hist["nsys"] = fs.nsys
    hist["sched_points"] = fs.sched_points
    hist["snap"] = fs.snapshot()
    hist["set_order_entries"] = proc.set_order_entries
    hist["entropy_calls"] = proc.entropy_used()
    hist["proc"] = proc
    return hist


def run_world(world):
    fs = SimFS(copy.deepcopy(world["disk"]))
    out = {"initial": fs.snapshot(), "procs": []}
    for pspec in world["procs"]:
        out["procs"].append(run_proc(fs, pspec))
    out["final"] = fs.snapshot()
    return out


def public_hist(h):
    """The observable part of a process history (for digests)."""
    return {"steps": h["steps"], "outcome": h["outcome"], "logs": h["logs"], "trace": h["trace"],
            "handed": h["handed"], "faults": h["faults"], "snap": h["snap"], "stdout": h.get("stdout", ""),
            "stderr": h.get("stderr", "")}


def stream_twin(knobs, opts, pieces):
    """Stream twin: a new simulated process, one FileAnonymizer, anonymize_io over in-memory streams
    fed exactly `pieces` (list of text pieces, in processing order).  Returns list of output texts
    (None where the twin raised)."""
    p = SimProcess(dict(knobs or {}, log_level=None))
    outs = []
    with p:
        fa = p.af.FileAnonymizer(**fa_kwargs(opts))
        for text in pieces:
            o_io = io.StringIO()
            try:
                fa.anonymize_io(io.StringIO(text), o_io)
                outs.append(o_io.getvalue())
            except Exception as e:
                outs.append(None)
    return outs
