"""Which workload families feed which claimed property, and with what budgets."""

_COMMON_ASSUMPTIONS = [
    "seeded sampling of plans, not enumeration: a clean batch is evidence, not proof",
    "the cold twin (a brand-new anonymizer in another simulated process, asked one question) is the reference; "
    "no hash construction is pinned",
    "a simulated process is a fresh import of the netconan package from the working tree with the seams of "
    "DESIGN.md §2.2 applied; real child interpreters are used only where the evidence says so",
]

PROPS = {
    "C03": {
        "families": [("ipm", {"quick": 2400, "thorough": 120000}, None),
                     ("fsx", {"quick": 700, "thorough": 40000}, {"mode": "hist"})],
        "wall": {"quick": 150, "thorough": 1500},
        "rule": "one evaluation = one seeded plan (configurations + 5-40 requests on live anonymizers, restarts, forks, dumps) "
                "executed against the real code, every answer compared with the cold twin; distinct = distinct schedule "
                "signature (configuration class + op-kind sequence with memo hit depth); non-trivial = a request's walk met "
                ">= 8 bits (>= 2 at small widths) memoised by a request of the other direction, or (file level) two executions "
                "differed in file order / partition / process count",
        "assumptions": _COMMON_ASSUMPTIONS + [
            "white-box memo cross-invariant is checked only while the `cache` attribute exists"],
    },
    "C02": {
        "families": [("ipm", {"quick": 2400, "thorough": 120000}, None),
                     ("fsx", {"quick": 1500, "thorough": 80000}, {"mode": "undo"})],
        "wall": {"quick": 150, "thorough": 1500},
        "rule": "one evaluation = one seeded plan; every answered request is undone/redone by a cold twin in another simulated "
                "process; non-trivial = the undo was answered on a cold memo for an address whose forward image came from another "
                "instance/process or from a warm history (>= 2 requests), or a file-level undo followed a restart",
        "assumptions": _COMMON_ASSUMPTIONS,
    },
    "C17": {
        "families": [("ipm", {"quick": 2400, "thorough": 120000}, None), ("fs", {"quick": 2000, "thorough": 100000}, None)],
        "wall": {"quick": 150, "thorough": 1500},
        "rule": "one evaluation = one seeded plan with dump operations at arbitrary points of a request history; non-trivial = the "
                "dump followed >= 2 forward requests or >= 1 inverse request on that instance",
        "assumptions": _COMMON_ASSUMPTIONS,
    },
    "C16": {
        "families": [("fs", {"quick": 3000, "thorough": 150000}, None)],
        "wall": {"quick": 200, "thorough": 2400},
        "rule": "one evaluation = one seeded world (tree of 1-8 files with nesting, spaces, non-ASCII, dot-files, empty and "
                "pre-existing directories; one netconan run through the CLI, the directory API, the single-file API or the stream "
                "API; a listing order; buffer/short-read/short-write knobs; 0-3 injected faults); distinct = distinct signature "
                "(entry point, file count, fault kinds fired, syscall-kind sequence, per-file verdicts); non-trivial = >= 2 files "
                "and >= 1 fault fired inside a file operation",
        "assumptions": _COMMON_ASSUMPTIONS + [
            "SimFS models errno semantics of open/read/write/close/mkdir/scandir; its fault-free behaviour is compared with the "
            "real file system by `check selftest-simfs`",
            "an unlistable sub-directory is an observation only (os.walk drops it silently; the property's quantifier does not list it)",
            "files that failed after processing began are judged against the stream twin fed the lines they had consumed"],
    },
}
