"""Which workload families feed which claimed property, and with what budgets."""

_COMMON_ASSUMPTIONS = [
    "seeded sampling of plans, not enumeration: a clean batch is evidence, not proof",
    "the cold twin (a brand-new anonymizer in another simulated process, asked one question) is the reference; "
    "no hash construction is pinned",
    "a simulated process is a fresh import of the netconan package from the working tree with the seams of "
    "DESIGN.md §2.2 applied; real child interpreters are used only where the evidence says so",
]

PROPS = {
    "C03": {
        "families": [("ipm", {"quick": 2400, "thorough": 120000}, None),
                     ("fsx", {"quick": 700, "thorough": 40000}, {"mode": "hist"})],
        "wall": {"quick": 240, "thorough": 2700},
        "rule": "one evaluation = one seeded plan (configurations + 5-40 requests on live anonymizers, restarts, forks, dumps) "
                "executed against the real code, every answer compared with the cold twin; distinct = distinct schedule "
                "signature (configuration class + op-kind sequence with memo hit depth); non-trivial = a request's walk met "
                ">= 8 bits (>= 2 at small widths) memoised by a request of the other direction, or (file level) two executions "
                "differed in file order / partition / process count",
        "assumptions": _COMMON_ASSUMPTIONS + [
            "white-box memo cross-invariant is checked only while the `cache` attribute exists"],
    },
    "C02": {
        "families": [("ipm", {"quick": 2400, "thorough": 120000}, None),
                     ("fsx", {"quick": 1500, "thorough": 80000}, {"mode": "undo"})],
        "wall": {"quick": 240, "thorough": 2700},
        "rule": "one evaluation = one seeded plan; every answered request is undone/redone by a cold twin in another simulated "
                "process; non-trivial = the undo was answered on a cold memo for an address whose forward image came from another "
                "instance/process or from a warm history (>= 2 requests), or a file-level undo followed a restart",
        "assumptions": _COMMON_ASSUMPTIONS,
    },
    "C17": {
        "families": [("ipm", {"quick": 2400, "thorough": 120000}, None), ("fs", {"quick": 2000, "thorough": 100000}, None)],
        "wall": {"quick": 240, "thorough": 2700},
        "rule": "one evaluation = one seeded plan with dump operations at arbitrary points of a request history; non-trivial = the "
                "dump followed >= 2 forward requests or >= 1 inverse request on that instance",
        "assumptions": _COMMON_ASSUMPTIONS,
    },
    "C16": {
        "families": [("fs", {"quick": 3000, "thorough": 150000}, None), ("fsw", {"quick": 16, "thorough": 1200}, None)],
        "wall": {"quick": 200, "thorough": 3000},
        "rule": "one evaluation = one seeded world (tree of 1-8 files with nesting, spaces, non-ASCII, dot-files, empty and "
                "pre-existing directories; one netconan run through the CLI, the directory API, the single-file API or the stream "
                "API; a listing order; buffer/short-read/short-write knobs; 0-3 injected faults); distinct = distinct signature "
                "(entry point, file count, fault kinds fired, syscall-kind sequence, per-file verdicts); non-trivial = >= 2 files "
                "and >= 1 fault fired inside a file operation",
        "assumptions": _COMMON_ASSUMPTIONS + [
            "SimFS models errno semantics of open/read/write/close/mkdir/scandir; its fault-free behaviour is compared with the "
            "real file system by `check selftest-simfs`",
            "an unlistable sub-directory is an observation only (os.walk drops it silently; the property's quantifier does not list it)",
            "files that failed after processing began are judged against the stream twin fed the lines they had consumed"],
    },
    "C08": {
        "families": [("pwd", {"quick": 2500, "thorough": 120000}, {"mode": "c08"})],
        "wall": {"quick": 200, "thorough": 2400},
        "rule": "one evaluation = one seeded run over 1-6 files whose lines reuse 2-6 secret identities in random format classes, "
                "line forms, quoting variants, $9$ re-encodings under different salt characters and the same plaintext in clear, "
                "with 0-2 storage faults biased onto the file that first introduces a reused secret; every replacement token of "
                "every durable output is decoded to its pseudonym index by independent decoders; distinct = distinct signature "
                "(identity sequence per line, files, faults fired, entry point); non-trivial = >= 2 identities with >= 1 reuse "
                "across different files or line forms",
        "assumptions": _COMMON_ASSUMPTIONS + [
            "pseudonym indices are recovered with passlib (type 7 decode, md5/sha512 verify), decimal/hex decoding and an own $9$ "
            "decoder; tokens whose context was not preserved are counted as unextractable, not guessed at",
            "the line-form x secret-value space is sampled by the fixed template list (validated by `check selftest-grammar`)"],
    },
    "C07": {
        "families": [("pwd", {"quick": 1500, "thorough": 80000}, {"mode": "c07"})],
        "wall": {"quick": 200, "thorough": 2400},
        "rule": "one evaluation = one pair of deterministic worlds that differ only in the secret values (same classes, lengths, "
                "md5 salt lengths, equality pattern), executed under the identical plan (files, listing order, entropy, set order, "
                "0-2 faults, 0-3 unrelated earlier anonymizers in the same process, some reserving this run's secrets); distinct = "
                "distinct signature (identity/class sequence, templates, files, faults, pre-history length); non-trivial = >= 2 "
                "identities with >= 1 repeated, or an INFO+ record produced on a fault path",
        "assumptions": _COMMON_ASSUMPTIONS + [
            "scoped: the line-form x secret-value space is sampled by the template list and class generators; the simulator decides "
            "the history, log-channel, fault and leftover-state facets for what is sampled",
            "planted secrets are >= 10 characters and unique, so an occurrence in output/log is a leak and not a coincidence"],
    },
    "C13": {
        "families": [("det", {"quick": 1500, "thorough": 80000}, {"mode": "c13"}),
                     ("det", {"quick": 128, "thorough": 3000}, {"mode": "c13", "child": True})],
        "wall": {"quick": 200, "thorough": 2400},
        "rule": "one evaluation = one scenario (tree, options, listing order, entry point) executed in a cold simulated process and "
                "again with a chosen set of nondeterminism dimensions changed (entropy, random seed, hash-set order, clock/pid, "
                "buffer sizes, 1-4 earlier activities in the same process) or in a real child interpreter with another "
                "PYTHONHASHSEED; includes the no-salt scenario (re-run with the reported salt); distinct = distinct signature; "
                "non-trivial = the varied dimension was actually exercised by the scenario (a $6$ secret / entropy consumed when "
                "entropy changes, sensitive words present when the set order changes, a pre-history present, ...)",
        "assumptions": _COMMON_ASSUMPTIONS + [
            "listing order is part of the input (pseudonym numbers follow processing order)",
            "the hash seed is varied through the order of the set feeding the word alternation in-process, and for real in child "
            "interpreters (count in reach_probes.child_runs)"],
    },
    "C10": {
        "families": [("det", {"quick": 1500, "thorough": 80000}, {"mode": "c10"}),
                     ("det", {"quick": 24, "thorough": 1500}, {"mode": "c10", "child": True})],
        "wall": {"quick": 200, "thorough": 2400},
        "rule": "one evaluation = one word list (1-6 words over g-z, overlaps, mixed case, substrings of reserved words, user "
                "reserved additions) and 3-14 lines, executed under every alternation order (all n! for n <= 3, 4 sampled above) "
                "and after unrelated earlier anonymizers in the same process; distinct = distinct signature; non-trivial = "
                "overlapping words or a reserved token containing a listed word, with >= 2 orders or a pre-history",
        "assumptions": _COMMON_ASSUMPTIONS + [
            "scoped: the line x word-list space is sampled; clause (3) (one pseudonym per occurrence, function of matched text) is "
            "checked for non-overlapping lists only"],
    },
    "C12": {
        "families": [("lay", {"quick": 2000, "thorough": 100000}, None), ("fs", {"quick": 1500, "thorough": 60000}, None)],
        "wall": {"quick": 200, "thorough": 2400},
        "rule": "one evaluation = one pool of 4-28 lines (benign vocabulary with tabs, indentation, trailing blanks, exotic "
                "whitespace; sensitive items at known positions) laid out as files in two ways (other order, other file boundaries, "
                "other split over runs/processes, CRLF and missing final newline) under a random feature subset, or (family fs) one "
                "tree run with storage faults; distinct = distinct signature (features, both layouts' shapes, line roles); "
                "non-trivial = the two layouts differ in order and in file boundaries, or a write fault / crash cut an output",
        "assumptions": _COMMON_ASSUMPTIONS + [
            "scoped: conservation is checked on the fixed benign vocabulary and on the literal context of generated sensitive lines, "
            "not on arbitrary tokens",
            "terminators are compared as a text-mode reader delivers them (universal newlines)"],
    },
}
