"""`check selftest-grammar`: validates the fixed workload grammar against the tree under test.

Every (template, class) pair must behave as the generators assume (secret replaced in place by a
decodable pseudonym with the context kept, or the line scrubbed), and every benign vocabulary line
must come out verbatim (modulo inner-whitespace collapse where the property allows it) under every
feature subset.  A failure here means the grammar (or the tree) must be looked at by a human: the
grammar is never pruned at run time.
"""
import io
import itertools
import random
import re

from . import decoders as D
from . import gen_common as GC
from . import grammar as G
from .fam_fs import extract
from .proc import SimProcess
from .world import fa_kwargs

QUOTES = [("", ""), ('"', '"'), ("'", "'"), ("[", "]"), ("{", "}"), ("", ";"), ("", ","), ('"', '";')]


def _collapse(s):
    lead = s[: len(s) - len(s.lstrip())]
    tail = s[len(s.rstrip()):]
    return lead + " ".join(s.split()) + tail


def main(a):
    r = random.Random(a.seed or 0)
    bad = 0
    n = 0
    p = SimProcess({"set_key": "k"})
    classes = {"text": ["text"], "num": ["num"], "hex": ["hex"], "t7": ["t7"], "md5": ["md5-4", "md5-1", "md5-8"], "sha": ["sha"],
               "j9": ["j9p", "j9p-num", "j9p-hex", "c9"], "aws": ["aws"]}
    quote_ok = {}
    with p:
        for t, allowed, kind in G.TEMPLATES:
            for cls, icls in [(c, ic) for c in allowed for ic in classes[c]]:
                for rep in range(2):
                    secrets = GC.gen_secrets(r, 2, classes=[icls])
                    ctx = {"a4": [0x17010203], "a6": [], "k4": [], "as": [], "words": []}
                    ln = GC.secret_line(r, ctx, secrets, kinds=(kind,), templates=[(t, allowed, kind)])
                    fa = p.af.FileAnonymizer(**fa_kwargs({"pwd": True, "salt": "Salt1"}))
                    src = G.render_line(ln, "a", secrets)
                    o_io = io.StringIO()
                    n += 1
                    try:
                        fa.anonymize_io(io.StringIO(src), o_io)
                    except Exception as e:
                        bad += 1
                        print("GRAMMAR template %r class %s: raised %r on %r" % (t, cls, e, src))
                        continue
                    out = o_io.getvalue()
                    vals = [G.render_seg(s, "a", secrets) for s in ln["segs"] if s[0] == "sec"]
                    if any(v in out for v in vals):
                        bad += 1
                        print("GRAMMAR template %r class %s: secret survives: %r -> %r" % (t, cls, src, out))
                        continue
                    if kind == "scrub":
                        if G.SCRUB_MARK not in out:
                            bad += 1
                            print("GRAMMAR template %r class %s: not scrubbed: %r -> %r" % (t, cls, src, out))
                        continue
                    toks = extract(ln, out.rstrip("\n"), secrets, True)
                    if toks is None:
                        bad += 1
                        print("GRAMMAR template %r class %s: context not kept: %r -> %r" % (t, cls, src, out))
                        continue
                    for seg, tok in toks:
                        if seg[0] != "sec":
                            continue
                        idx, tcls = D.decode_any(tok)
                        want = "text" if cls == "aws" else cls
                        if idx is None or (tcls.split("-")[0] != want and want != "j9") or (want == "j9" and tcls != "j9"):
                            bad += 1
                            print("GRAMMAR template %r class %s: token %r decodes to %r (%s): %r -> %r" % (
                                t, cls, tok, idx, tcls, src, out))
            # quoting variants (informational table: which variants keep the pseudonym decodable)
            if kind == "keep" and t.endswith("{}") and "text" in allowed:
                for pre, post in QUOTES:
                    secrets = GC.gen_secrets(r, 1, classes=["text"])
                    ctx = {"a4": [0x17010203], "a6": [], "k4": [], "as": [], "words": []}
                    ln = GC.secret_line(r, ctx, secrets, kinds=(kind,), templates=[(t, allowed, kind)])
                    for s in ln["segs"]:
                        if s[0] == "sec":
                            s[2]["pre"], s[2]["post"] = pre, post
                    fa = p.af.FileAnonymizer(**fa_kwargs({"pwd": True, "salt": "Salt1"}))
                    src = G.render_line(ln, "a", secrets)
                    o_io = io.StringIO()
                    fa.anonymize_io(io.StringIO(src), o_io)
                    toks = extract(ln, o_io.getvalue().rstrip("\n"), secrets, True)
                    ok = toks is not None and all(D.decode_any(tok)[0] is not None for seg, tok in toks if seg[0] == "sec")
                    quote_ok.setdefault(t, []).append((pre + post, ok))
        # benign vocabulary under every feature subset
        for feats in itertools.product([False, True], repeat=4):
            o = {"pwd": feats[0], "ip": feats[1], "salt": "Salt1", "words": ["zorvex", "qux"] if feats[2] else None,
                 "as": ["64999", "4200000123"] if feats[3] else None}
            if not any(feats):
                continue
            fa = p.af.FileAnonymizer(**fa_kwargs(o))
            for b in G.BENIGN:
                n += 1
                o_io = io.StringIO()
                fa.anonymize_io(io.StringIO(b + "\n"), o_io)
                out = o_io.getvalue()
                exp = b + "\n"
                if out != exp and not ((feats[0] or feats[2]) and out == _collapse(exp)):
                    bad += 1
                    print("GRAMMAR benign line %r under %s came out as %r" % (b, feats, out))
    if a.json:
        for t, rows in sorted(quote_ok.items()):
            print("QUOTES %-60r %s" % (t, " ".join("%s:%s" % (q or "bare", "ok" if ok else "NO") for q, ok in rows)))
    print("selftest-grammar: %d cases, %d failures" % (n, bad))
    return 2 if bad else 0
