"""Family `fsw`: single-fault sweep of one world (C16 thorough tier, a couple of worlds in quick).

A fault-free `fs` plan is executed once; then every syscall of its trace is revisited with every
fault kind that applies to it (crash and interrupt at every index; ENOENT/EACCES on opens; EIO at
the byte a read had reached; ENOSPC/EIO at the byte a write had reached; EIO on close; EEXIST race
and EACCES on mkdir; EACCES on scandir), one fault per execution, and judged by the `fs` oracles.
"""
import copy
import posixpath

from . import core
from . import fam_fs
from . import world as W

NAME = "fsw"


def generate(seed, tier="quick", **kw):
    plan = fam_fs.generate(seed, tier, faults=False, light=True)
    plan["family"] = NAME
    plan["max_faults"] = 260
    return plan


def derive(plan):
    """All single-fault variants of the fault-free plan, from its own trace."""
    base = copy.deepcopy(plan)
    base["family"] = "fs"
    base["faults"] = []
    H = W.run_world(fam_fs.build_world(base))
    h = H["procs"][0]
    picked = []
    pos = {}
    seen = set()
    for seq, op, path, extra in h["trace"]:
        q = posixpath.normpath(path) if path else path
        cands = [{"kind": "crash", "at": seq}, {"kind": "interrupt", "at": seq}]
        if op == "open" and extra == "r":
            cands += [{"kind": "vanish", "path": q, "mode": "r", "nth": 1}, {"kind": "eacces", "path": q, "mode": "r", "nth": 1}]
            pos[q] = 0
        elif op == "open":
            cands += [{"kind": "eacces", "path": q, "mode": "w", "nth": 1}, {"kind": "eio_close", "path": q}]
            pos[q] = 0
        elif op == "read":
            cands.append({"kind": "eio_read", "path": q, "at": pos.get(q, 0)})
            if extra and extra > 1:
                cands.append({"kind": "eio_read", "path": q, "at": pos.get(q, 0) + extra // 2})
            pos[q] = pos.get(q, 0) + (extra or 0)
        elif op == "write":
            cands.append({"kind": "enospc", "path": q, "at": pos.get(q, 0)})
            cands.append({"kind": "eio_write", "path": q, "at": pos.get(q, 0) + (extra or 0) // 2})
            pos[q] = pos.get(q, 0) + (extra or 0)
        elif op == "mkdir":
            cands += [{"kind": "mkdir_race", "path": q}, {"kind": "mkdir_eacces", "path": q}]
        elif op == "scandir" and q != plan["in"]:
            cands.append({"kind": "scandir_eacces", "path": q})
        for f in cands:
            if (f.get("path") or "").startswith(".systmp/netconan-") and f["path"].endswith(".cfg"):
                continue        # the harness's own configuration file (`-c`): a fault there rejects the command line, C19's subject
            key = core.canon(f)
            if key in seen:
                continue
            seen.add(key)
            if plan.get("dump") and f.get("path") == plan["dump"]:
                f["dump"] = True
            picked.append(f)
    cap = plan.get("max_faults", 260)
    if len(picked) > cap:
        # an even stride over the whole trace rather than its first `cap` fault points
        picked = [picked[(i * len(picked)) // cap] for i in range(cap)]
    out = []
    for f in picked:
        d = copy.deepcopy(base)
        d["faults"] = [f]
        out.append(d)
    return out, len(h["trace"])


def check(plan):
    variants, ntrace = derive(plan)
    variants = variants[: plan.get("max_faults", 260)]
    V = []
    faults = {}
    probes = {"sweep_worlds": 1, "sweep_variants": len(variants), "trace_len": ntrace, "fault_fired_variants": 0}
    steps = 0
    reduce_to = None
    digests = []
    nontrivial = False
    for d in variants:
        r = fam_fs.check(d)
        steps += r["steps"]
        digests.append(r["digest"])
        for k, v in r["faults"].items():
            faults[k] = faults.get(k, 0) + v
        if r["faults"]:
            probes["fault_fired_variants"] += 1
        nontrivial = nontrivial or r["nontrivial"].get("C16")
        for v in r["violations"]:
            if not any(x["prop"] == v["prop"] and x["tag"] == v["tag"] for x in V):
                v = dict(v, detail="single fault %s: %s" % (d["faults"], v["detail"]))
                V.append(v)
                if reduce_to is None:
                    reduce_to = {"family": "fs", "plan": d}
    res = {"violations": V, "digest": core.digest(digests), "sig": core.digest(["sweep", plan["entry"], ntrace, sorted(faults)]),
           "nontrivial": {"C16": bool(nontrivial)}, "faults": faults, "probes": probes, "steps": steps, "evals": len(variants) + 1,
           "sample": {"entry": plan["entry"], "files": [f["path"] for f in plan["files"]], "variants": len(variants),
                      "first_faults": [d["faults"][0] for d in variants[:6]]}}
    if reduce_to:
        res["reduce_to"] = reduce_to
    return res


def shrink_candidates(plan):
    return iter(())
