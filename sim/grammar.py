"""Workload grammar: lines are assembled from segments whose role the generator knows.

A line is {"segs": [[role, text, meta], ...], "eol": "\\n"}.  Roles:
    lit   benign literal text (conserved verbatim, modulo inner-whitespace collapse when allowed)
    a4/a6 an address token that must be replaced           meta: {"v": int}
    k4    an IPv4 token that must be kept (mask-shaped or member of a preserved network)
    sec   a secret                                         meta: {"id": n, "enc": "plain"|"j9", ...}
    w     an occurrence of a listed sensitive word         meta: {"w": index}
    as    an occurrence of a configured AS number          meta: {"n": index}
    rw    a token that is exactly a reserved word and contains a listed word (kept)
    bad   undecodable bytes (latin-1 text holding the raw bytes)
Nothing in this module touches netconan.
"""
import ipaddress
import re

# ---------------------------------------------------------------------------
# benign vocabulary (fixed; validated on the unchanged tree by `check selftest-grammar`)
# ---------------------------------------------------------------------------
BENIGN = [
    "interface Ethernet1/1",
    "  description uplink\tto core  ",
    "!",
    "",
    "   ",
    "\tno shutdown",
    "route-map RM-OUT permit 10",
    " match ip address prefix-list PL_1 ",
    "ip access-list extended ACL-IN",
    "  permit tcp any any eq 22 log",
    "line vty 0 4",
    " exec-timeout 5 0",
    "banner motd ^C hello ^C",
    "hostname r1.lab",
    "  mtu 9000\x0c",
    "vlan 10,20,30-40",
    "logging buffered 10000 debugging",
    "router bgp 65001",
    " address-family ipv4 unicast",
    "snmp-server location \"rack 4\\b\"",
    "x" * 300,
    "  spanning-tree   portfast    edge",
    "end\x85",
    "  switchport mode trunk",
    "aaa new-model\x1c",
    "  ip ospf cost 10  \t ",
    "set system host-name r2",
    "    }",
    "#",
    "  service-policy input PM-IN\x0b",
    "\"",
    "{",
    "\";",
    "''",
    "[ ]",
    " , ",
    ";",
    "\t \tdescription mixed indent",
    # text that is not in Unicode normal form C (decomposed accents as macOS writes them, compatibility signs)
    " description Cafe\u0301 uplink, 10 k\u2126 pull-up, 3 \u212b, 0 \u212a",
    "banner motd ^ A\u030angstro\u0308m site \u037e ^",
    "set pksecret \"\"",
    "enable secret ''",
    "y" * 5000,
    "  \x0c  ",
    "  description café ٣٤ naïve ４２",
    "alias exec ｓｈｏｗ show",
]

# ---------------------------------------------------------------------------
# address material
# ---------------------------------------------------------------------------
MASKS4 = ["255.255.255.0", "255.255.255.252", "0.0.0.255", "255.255.0.0", "0.0.0.0", "255.255.255.255", "0.0.3.255",
          "128.0.0.0"]

LINES_A4 = [
    ["lit: range ", "a4", "lit:-", "a4", "lit: overload"],          # first-last ranges, in either numeric order
    ["lit:ip address ", "a4", "lit: ", "k4"],
    ["lit: neighbor ", "a4", "lit: remote-as 65001"],
    ["lit:ip route ", "a4", "lit: ", "k4", "lit: ", "a4"],
    ["lit: permit ip host ", "a4", "lit: any"],
    ["lit:ntp server ", "a4", "lit:;"],
    ["lit:  description link-to-", "a4", "lit:-core"],
    ["lit:set interfaces ge-0/0/0 unit 0 family inet address ", "a4p"],
    ["lit:logging host ", "a4", "lit:  transport udp"],
    ["lit: ip prefix-list PL_1 seq 5 permit ", "a4p"],
    ["a4", "lit:,", "a4"],
]
LINES_A6 = [
    ["lit: ipv6 local pool P1 ", "a6", "lit:-", "a6"],
    ["lit: neighbor ", "a6", "lit: remote-as 65001 update-source ", "a4"],       # both families on one line, IPv6 first
    ["lit:ipv6 address ", "a6p"],
    ["lit: neighbor ", "a6", "lit: remote-as 65001"],
    ["lit:ipv6 route ", "a6p", "lit: ", "a6"],
    ["lit:set interfaces lo0 unit 0 family inet6 address ", "a6p"],
    ["lit:  description [", "a6", "lit:] uplink"],
    ["a6", "lit: ", "a6"],
]
LINES_AS = [
    ["lit:router bgp ", "as"],
    ["lit: neighbor ", "a4", "lit: remote-as ", "as"],
    ["lit:set routing-options autonomous-system ", "as"],
    ["lit:ip as-path access-list 1 permit _", "as", "lit:_"],
    ["lit: bgp confederation peers ", "as", "lit: ", "as"],
    ["lit: set extcommunity rt ", "as", "lit::100 additive"],
    ["lit:route-target export ", "as", "lit::", "as"],
    ["lit: neighbor ", "a4", "lit: local-as ", "as", "lit:, remote-as ", "as", "lit:;"],
    ["lit:! peers (AS", "as", "lit:) and [", "as", "lit:]"],
    # column-aligned and tab-separated rows holding an address and an AS number
    ["lit:\tneighbor ", "a4", "lit:\tremote-as ", "as"],
    ["a4", "lit:    4 ", "as", "lit:   12345   67  0 0 0 1d02h   5"],
]
LINES_W = [
    ["lit:hostname ", "w", "lit:-r1"],
    ["lit:  description to ", "w", "lit: via ", "w"],
    ["lit:route-map ", "w", "lit:-to-", "w", "lit: permit 10"],
    ["lit:ip prefix-list PL-", "w", "lit:_CUST seq 5 deny any"],
    ["lit:snmp-server contact noc@", "w", "lit:.example"],
    ["lit: remark (", "w", "lit:)"],
    ["w"],
    ["lit:set system domain-name ", "w", "lit:.net;"],
    ["lit: neighbor ", "w0", "lit: peer-group ", "w0", "lit:-", "w1"],
    ["lit: ip route ", "a4", "lit: ", "k4", "lit: name ", "w", "lit: tag 17"],
    ["lit:  description \"", "w", "lit: core via ", "a6", "lit:\" (AS ", "as", "lit:)"],
    ["lit: neighbor ", "a4", "lit: remote-as ", "as", "lit: description ", "w", "lit:-edge"],
    ["lit:vrf ", "w0", "lit: description ", "w0", "lit:->", "w1", "lit: ", "w1"],
    ["lit: match community ", "w1", "lit:_", "w0", "lit: ", "w0"],
    # characters whose lower-case form has another length (U+0130) in front of the word, in the same token and in another
    ["lit:hostname \u0130ZM\u0130R-\u0130-", "w", "lit:-r1"],
    # (a separator before the word: under IGNORECASE U+0130 also matches a listed word's own leading `i`)
    ["lit: description \u0130\u0130\u0130\u0130\u0130\u0130\u0130\u0130\u0130_", "w"],
    ["lit:set location \"\u0130stanbul ", "w", "lit:\""],
]

AS_POOL = ["64999", "4200000123", "64700", "23456", "65123", "70000"]


def is_mask4(v):
    """Independent predicate: ones then zeros, or zeros then ones (0 and 2^32-1 included)."""
    b = "{:032b}".format(v)
    return re.fullmatch(r"1*0*|0*1*", b) is not None


def tok4(r, v, plen=None, zeros=None):
    s = str(ipaddress.IPv4Address(v))
    if zeros is None:
        zeros = r.random() < 0.12
    if zeros:
        s = ".".join("0" * r.randint(1, 2) + o for o in s.split("."))
    if plen is not None:
        s += "/%d" % plen
    return s


def tok6(r, v, plen=None):
    a = ipaddress.IPv6Address(v)
    c = r.random()
    s = a.compressed if c < 0.55 else (a.exploded if c < 0.8 else a.compressed.upper())
    if plen is not None:
        s += "/%d" % plen
    return s


def addr_pool4(r, keep_nets=(), n=6):
    """Clustered IPv4 addresses that are not mask-shaped and not inside a kept network."""
    nets = [ipaddress.ip_network(k) for k in keep_nets]
    bases = [r.choice([0x17000000, 0x0A000000, 0xC0A80000, 0xAC100000, 0x64400000, 0xC6336400]) | r.getrandbits(20)
             for _ in range(r.randint(1, 3))]
    out = []
    guard = 0
    while len(out) < n and guard < 200:
        guard += 1
        b = r.choice(bases)
        c = r.random()
        v = b if c < 0.2 else (b ^ (1 << r.randint(0, 31)) if c < 0.55 else ((b >> 8) << 8) | r.getrandbits(8))
        if is_mask4(v) or any(ipaddress.IPv4Address(v) in nn for nn in nets) or v in out:
            continue
        out.append(v)
    return out


def addr_pool6(r, n=4):
    bases = [(0x20010DB8 << 96) | (r.getrandbits(16) << 80) | r.getrandbits(64) for _ in range(r.randint(1, 2))]
    out = []
    while len(out) < n:
        b = r.choice(bases)
        c = r.random()
        v = b if c < 0.2 else (b ^ (1 << r.randint(0, 127)) if c < 0.6 else ((b >> 16) << 16) | r.getrandbits(16))
        if v not in out and v >> 112 != 0:      # keep clear of ::a.b.c.d shaped values
            out.append(v)
    if r.random() < 0.3:
        out.append(r.choice([0xFE80 << 112 | 1, 0x20010DB8 << 96, (0x20010DB8 << 96) | 1, 0xFF02 << 112 | 2]))
    return out


# ---------------------------------------------------------------------------
# secrets
# ---------------------------------------------------------------------------
B64 = "./0123456789ABCDEFGHIJKLMNOPQRSTUVWXYZabcdefghijklmnopqrstuvwxyz"
TEXT_MID = "ghijklmnopqrstuvwxyzGHIJKLMNOPQRSTUVWXYZ0123456789_-+=@#%^&*.!?~$()|<>"
GZ = "ghijklmnopqrstuvwxyz"
J9_FAMILY = ["QzF3n6/9CAtpu0O", "B1IREhcSyrleKvMW8LXx", "7N-dVbwsY2g4oaJZGUDj", "iHkq.mPf5T"]
J9_ALPHA = "".join(J9_FAMILY)


def classify(val):
    """Independent classifier of a secret's format class (order matters)."""
    if re.fullmatch(r"[0-9]+", val):
        return "num"
    if re.fullmatch(r"[01][0-9]([0-9a-fA-F]{2})+", val):
        return "t7"
    if re.fullmatch(r"[0-9a-fA-F]+", val):
        return "hex"
    m = re.fullmatch(r"\$1\$([^$\s]+)\$\S+", val)
    if m:
        return "md5-%d" % len(m.group(1)) if len(m.group(1)) <= 8 else "md5-long"
    if re.fullmatch(r"\$1\$\S+\$\S+", val):
        return "md5-?"
    if re.fullmatch(r"\$6\$\S+", val):
        return "sha"
    if re.fullmatch(r"\$9\$\S+", val):
        return "j9"
    return "text"


def gen_secret(r, cls, length=None, like=None):
    """A fresh secret value of the class; `like` = an earlier value whose shape must be kept."""
    if cls == "text":
        n = length or r.randint(12, 18)
        return r.choice(GZ) + "".join(r.choice(TEXT_MID) for _ in range(n - 3)) + r.choice("0123456789") + r.choice(GZ)
    if cls == "num":
        n = length or r.randint(11, 15)
        return r.choice("23456789") + "".join(r.choice("0123456789") for _ in range(n - 1))
    if cls == "hex":
        n = length or r.randint(11, 15)
        # starts with a letter a-f so that it is neither numeric nor type-7 shaped
        return r.choice("abcdef") + "".join(r.choice("0123456789abcdefABCDEF") for _ in range(n - 2)) + "f"
    if cls == "t7":
        n = length or (2 + 2 * r.randint(5, 9))
        salt = like[:2] if like else "%02d" % r.randint(0, 15)
        body = "".join(r.choice("0123456789ABCDEF") for _ in range(n - 3)) + r.choice("ABCDEF")
        return salt + body
    if cls == "md5-long":   # over-long salt field: today the file fails on it (C14's subject); only used where that is harmless
        sl = (len(like.split("$")[2]) if like else r.randint(9, 12))
        return "$1$" + "".join(r.choice(B64[2:]) for _ in range(sl)) + "$" + "".join(r.choice(B64) for _ in range(22))
    if cls.startswith("md5"):
        sl = int(cls.split("-")[1]) if "-" in cls else r.randint(1, 8)
        return "$1$" + "".join(r.choice(B64) for _ in range(sl)) + "$" + "".join(r.choice(B64) for _ in range(22))
    if cls == "sha":
        return "$6$" + "".join(r.choice(B64[2:]) for _ in range(16)) + "$" + "".join(r.choice(B64) for _ in range(86))
    if cls == "j9p":       # a Juniper plaintext (identity); encodings are rendered per occurrence
        n = length or r.randint(10, 14)
        return r.choice(GZ) + "".join(r.choice(GZ + "GHJKLMNPQRSTUVWXYZ23456789") for _ in range(n - 2)) + r.choice(GZ)
    if cls == "j9p-l1":    # a Juniper plaintext with Latin-1 letters (bytes >= 0x80 that are not valid UTF-8 on their own)
        n = length or r.randint(10, 13)
        base = [r.choice(GZ + "GHJKLMNPQRSTUVWXYZ23456789") for _ in range(n)]
        # (the paired value has its Latin-1 letters at the same positions: where such a plaintext also stands in clear, the
        # two worlds' files then have multi-byte characters at the same byte offsets - non-ASCII clear text is outside C07's
        # quantifier, and a decoder's error position must not tell the worlds apart)
        spots = [i for i, ch in enumerate(like) if ord(ch) > 127] if like and len(like) == n else r.sample(range(1, n - 1), 2)
        for i in spots:
            base[i] = r.choice("\xe4\xf6\xfc\xe9\xf1\xdf")
        base[0], base[-1] = r.choice(GZ), r.choice(GZ)
        return "".join(base)
    if cls == "j9p-num":   # a Juniper plaintext that is itself all digits
        n = length or r.randint(10, 13)
        return r.choice("23456789") + "".join(r.choice("0123456789") for _ in range(n - 1))
    if cls == "j9p-hex":
        n = length or r.randint(10, 13)
        return r.choice("abcdefABCDEF") + "".join(r.choice("0123456789abcdefABCDEF") for _ in range(n - 2)) + r.choice("fF")
    if cls == "c9":        # Cisco type 9 (scrypt): $9$ prefix but not a Juniper encoding (inner '$')
        return "$9$" + "".join(r.choice(B64) for _ in range(14)) + "$" + "".join(r.choice(B64) for _ in range(43))
    if cls == "aws":
        return "".join(r.choice("ghijklmnopqrstuvwxyzGHIJKLMNOPQRSTUVWXYZ_") for _ in range(32))
    raise ValueError(cls)


ALL = ("text", "num", "hex", "t7", "md5", "sha", "j9")
NOT_NUM = ("text", "hex", "t7", "md5", "sha", "j9")

# (template, allowed classes, kind).  `{}` = secret slot, `{ip}` = IPv4 address token.
TEMPLATES = [
    ("set password ENC {}", ALL, "keep"),
    ("set pksecret {}", ALL, "keep"),
    (" password 7 {}", ALL, "keep"),
    ("enable password level 12 {}", ALL, "keep"),
    ("enable password level 3 5 {}", ALL, "keep"),
    ("passwd {}", NOT_NUM, "keep"),
    ("username Someone password 0 {}", ALL, "keep"),
    ("username Someone view Someview secret 5 {}", ALL, "keep"),
    ("username noc secret sha512 {}", ALL, "keep"),
    ("username Someone privilege 15 password 7 {}", ALL, "keep"),
    ("enable secret 5 {}", ALL, "keep"),
    ("enable secret level 15 5 {}", ALL, "keep"),
    ("enable secret level 7 {}", NOT_NUM, "keep"),
    ("enable secret {}", NOT_NUM, "keep"),
    ("ip ftp password 7 {}", ALL, "keep"),
    (" ip ospf authentication-key 0 {}", ALL, "keep"),
    (" ip ospf message-digest-key 1 md5 7 {}", ALL, "keep"),
    (" vrrp 2 authentication text {}", ALL, "keep"),
    ("isis password {} level-1", NOT_NUM, "keep"),
    ("domain-password {} authenticate snp validate", ALL, "keep"),
    ("area-password {}", ALL, "keep"),
    (" standby 1 authentication md5 key-string 7 {} timeout 123", ALL, "keep"),
    (" standby authentication text {}", ALL, "keep"),
    (" standby authentication {}", NOT_NUM, "keep"),
    ("l2tp tunnel password 0 {}", ALL, "keep"),
    ("digest secret 0 {} hash MD5", ALL, "keep"),
    (" ppp chap hostname {}", ALL, "keep"),
    (" ppp chap password 0 {}", ALL, "keep"),
    (" pre-shared-key address {ip} key 6 {}", ALL, "keep"),
    (" pre-shared-key hostname example.com key {}", NOT_NUM, "keep"),
    (" ikev2 local-authentication pre-shared-key {}", ALL, "keep"),
    (" remote-authentication pre-shared-key {}", ALL, "keep"),
    (" pre-shared-key local 0 {}", ALL, "keep"),
    (" pre-shared-key remote hex {}", ALL, "keep"),
    ("set security ike policy p1 pre-shared-key ascii-text \"{}\"", ALL, "keep"),
    ("tacacs-server host {ip} key 7 {}", ALL, "keep"),
    ("radius-server key {}", NOT_NUM, "keep"),
    (" key 0 {}", ALL, "keep"),
    (" key hexadecimal {}", ALL, "keep"),
    ("ntp authentication-key 123 md5 {} 1", ALL, "keep"),
    ("syscon address {ip} {}", ALL, "keep"),
    ("syscon password {}", ALL, "keep"),
    ("snmp-server user Someone Somegroup v3 auth sha {} priv aes 128 {}", ALL, "keep"),
    ("snmp-server user Someone Somegroup remote Crap v3 auth md5 {}", ALL, "keep"),
    ("snmp-server user Someone Somegroup v3 priv aes 128 {} auth sha {}", ALL, "keep"),
    ("snmp-server user Someone Somegroup v3 priv des {} auth md5 {}", ALL, "keep"),
    ("crypto isakmp key 6 {} hostname Something", ALL, "keep"),
    ("isakmp key {} address {ip}", NOT_NUM, "keep"),
    ("set session-key inbound ah 4294967295 {}", ALL, "keep"),
    ("set session-key outbound esp 256 cipher {} authenticator {}", ALL, "keep"),
    ("set session-key outbound esp 256 authenticator {}", ALL, "keep"),
    ("authentication-key \"{}\";", ALL, "keep"),
    ("hello-authentication-key {}", ALL, "keep"),
    ("snmp-server community {} ro 1", ALL, "keep"),
    ("snmp-server community 0 {} RW 2", ALL, "keep"),
    ("snmp-server host {ip} informs version 3 priv {} memory", ALL, "keep"),
    ("snmp-server host {ip} vrf Something informs {} config", ALL, "keep"),
    ("set snmp community {} authorization read-only", ALL, "keep"),
    ("set snmp trap-group {} otherstuff", ALL, "keep"),
    ("  snmp {{ community {};", ALL, "keep"),
    ("set system license keys key \"{}\"", ALL, "keep"),
    ("key-hash sha256 {}", ALL, "keep"),
    ("set community {} trailing text", ("text",), "keep"),
    (" neighbor {ip} description uplink-peer password 7 {}", ALL, "keep"),
    ("tacacs-server host {ip} port 49 timeout 3 key 7 {}", ALL, "keep"),
    ("snmp-server host {ip} traps version 2c {} udp-port 162", ALL, "keep"),
    ("snmp-server mib community-map {}:100 context public1", ALL, "keep"),
    ("rf-switch snmp-community {}", ALL, "keep"),
    # a quoted secret followed, on the same line, by further text that holds another quoted string
    ("set system radius-server {ip} secret \"{}\" source-address \"lo0\"", NOT_NUM, "keep"),
    (" secret \"{}\" description \"core uplink\"; ## SECRET-DATA", NOT_NUM, "keep"),
    ("vpdn username bob password \"{}\" comment \"dial in\"", NOT_NUM, "keep"),
    ("set security ike policy p1 pre-shared-key ascii-text \"{}\" remark \"site b\"", ALL, "keep"),
    ("set snmp community \"{}\" clients \"all nets\" authorization read-only", ALL, "keep"),
    ("my hash is {}", ("md5", "j9"), "keep"),
    ("foo bar \"{}\"; baz", ("md5", "j9"), "keep"),
    ("<pre_shared_key>{}</pre_shared_key>", ("aws",), "keep"),
    # one physical line holding the same form twice (AWS prints the whole customer-gateway document, both tunnels, on one line)
    ("<ipsec_tunnel><pre_shared_key>{}</pre_shared_key></ipsec_tunnel><ipsec_tunnel><pre_shared_key>{}</pre_shared_key></ipsec_tunnel>", ("aws",), "keep"),
    ("{{\"PreSharedKey\": \"{}\", \"Tunnel\": 1}}, {{\"PreSharedKey\": \"{}\", \"Tunnel\": 2}}", ("aws",), "keep"),
    ("\"PreSharedKey\": \"{}\",", ("aws",), "keep"),
    # scrub forms: the whole remainder is replaced by the marker
    ("cable shared-secret {}", ALL, "scrub"),
    ("set system root-encrypted-password {}", ALL, "scrub"),
    ("wpa-psk ascii {}", ALL, "scrub"),
    ("ldap-login-password x{}", ALL, "scrub"),
    ("failover key {}", ALL, "keep"),
    ("vpdn username bob password {}", ALL, "keep"),
    ("key-string 7 {}", ALL, "scrub"),
    (" neighbor {ip} password 7 {}", ALL, "keep"),
    ("message-digest-key 1 md5 7 {}", ALL, "scrub"),
    ("wlccp ap username bob password 7 {}", ALL, "keep"),
    ("set protocols bgp group g neighbor {ip} authentication-key x md5 1 key {};", ALL, "keep"),
    ("set system radius-server {ip} secret {};", ALL, "keep"),
    ("set system root-authentication encrypted-password \"{}\"", ALL, "scrub"),
    ("set system login user bob authentication ssh-rsa \"ssh-rsa {} bob@host\"", ("text",), "scrub"),
]
SCRUB_MARK = "! Sensitive line SCRUBBED by netconan"


def parse_template(t):
    """-> list of ('lit', text) | ('sec',) | ('ip',) pieces."""
    out = []
    for piece in re.split(r"(\{\}|\{ip\})", t):
        if piece == "{}":
            out.append(("sec",))
        elif piece == "{ip}":
            out.append(("ip",))
        elif piece:
            out.append(("lit", piece.replace("{{", "{").replace("}}", "}")))
    return out


# ---------------------------------------------------------------------------
# own Juniper $9$ codec (written from the Crypt::Juniper description; independent of netconan)
# ---------------------------------------------------------------------------
_J9_ENC = [[1, 4, 32], [1, 16, 32], [1, 8, 32], [1, 64], [1, 32], [1, 4, 16, 128], [1, 32, 64]]
_J9_NUM = {c: i for i, c in enumerate(J9_ALPHA)}
_J9_EXTRA = {c: 3 - f for f, chars in enumerate(J9_FAMILY) for c in chars}


def j9_encode(plain, salt_char, extra_fill="x"):
    fill = (extra_fill * 3)[: _J9_EXTRA[salt_char]]
    fill = "".join(ch if ch in _J9_NUM else "n" for ch in fill)
    out = "$9$" + salt_char + fill
    prev = salt_char
    for pos, ch in enumerate(plain):
        enc = _J9_ENC[pos % 7]
        o = ord(ch)
        gaps = []
        for mod in reversed(enc):
            gaps.insert(0, o // mod)
            o %= mod
        for g in gaps:
            prev = J9_ALPHA[(g + _J9_NUM[prev] + 1) % len(J9_ALPHA)]
            out += prev
    return out


def j9_decode(crypt):
    if not crypt.startswith("$9$"):
        raise ValueError("not $9$")
    chars = crypt[3:]
    if len(chars) < 1 or any(c not in _J9_NUM for c in chars):
        raise ValueError("bad $9$ alphabet")
    first, chars = chars[0], chars[1:]
    chars = chars[_J9_EXTRA[first]:]
    prev = first
    out = ""
    while chars:
        dec = _J9_ENC[len(out) % 7]
        nib, chars = chars[: len(dec)], chars[len(dec):]
        if len(nib) != len(dec):
            raise ValueError("truncated $9$")
        num = 0
        for c, d in zip(nib, dec):
            gap = (_J9_NUM[c] - _J9_NUM[prev]) % len(J9_ALPHA) - 1
            prev = c
            num += gap * d
        out += chr(num % 256)
    return out


# ---------------------------------------------------------------------------
# rendering
# ---------------------------------------------------------------------------
def render_seg(seg, world, secrets):
    role, text = seg[0], seg[1]
    if role == "sec":
        meta = seg[2]
        s = secrets[str(meta["id"])]
        val = s[world]
        if meta.get("enc") == "j9":
            val = j9_encode(val, meta["salt"], meta.get("fill", "x"))
        return meta.get("pre", "") + val + meta.get("post", "")
    return text


def render_line(line, world="a", secrets=None):
    return "".join(render_seg(s, world, secrets or {}) for s in line["segs"]) + line.get("eol", "\n")


def render_file(lines, world="a", secrets=None):
    """bytes of a file; `bad` segments carry raw bytes as latin-1 text.

    A bare CR terminator directly followed by an empty line would read as one CRLF: it is written as
    CRLF instead, so generated line n is always text line n."""
    out = bytearray()
    bodies = []
    for ln in lines:
        b = bytearray()
        for s in ln["segs"]:
            if s[0] == "bad":
                b += s[1].encode("latin-1")
            else:
                b += render_seg(s, world, secrets or {}).encode("utf-8")
        bodies.append(bytes(b))
    for i, ln in enumerate(lines):
        eol = ln.get("eol", "\n")
        if eol == "" and i + 1 < len(lines):
            eol = "\n"          # only the final line of a file may lack its terminator (later insertions must not merge lines)
        if eol == "\r" and i + 1 < len(lines) and bodies[i + 1] == b"":
            eol = "\r\n"
        out += bodies[i] + eol.encode("utf-8")
    return bytes(out)


def text_lines(data):
    """The lines a text-mode reader (utf-8, universal newlines) delivers for these bytes."""
    import io
    t = io.TextIOWrapper(io.BytesIO(data), encoding="utf-8", newline=None).read()
    out = t.split("\n")
    res = [x + "\n" for x in out[:-1]]
    if out[-1] != "":
        res.append(out[-1])
    return res


def lit_line(text, eol="\n"):
    return {"segs": [["lit", text]], "eol": eol}


def expand(r, pattern, ctx):
    """pattern: list of 'lit:text' | role names  ->  line dict.  ctx supplies the pools."""
    segs = []
    fixed = {}
    for p in pattern:
        if p.startswith("lit:"):
            segs.append(["lit", p[4:]])
        elif p in ("w0", "w1"):
            if p not in fixed:
                i = r.randrange(len(ctx["words"]))
                if p == "w1" and "w0" in fixed and len(ctx["words"]) > 1:
                    i = r.choice([j for j in range(len(ctx["words"])) if j != fixed["w0"][1]])
                w = ctx["words"][i]
                fixed[p] = (w if r.random() < 0.6 else w.lower(), i)
            segs.append(["w", fixed[p][0], {"w": fixed[p][1]}])
        elif p in ("a4", "a4p"):
            v = r.choice(ctx["a4"])
            segs.append(["a4", tok4(r, v, r.choice([8, 16, 24, 30, 32]) if p == "a4p" else None), {"v": v}])
        elif p in ("a6", "a6p"):
            v = r.choice(ctx["a6"])
            segs.append(["a6", tok6(r, v, r.choice([48, 64, 127, 128]) if p == "a6p" else None), {"v": v}])
        elif p == "k4":
            segs.append(["k4", r.choice(ctx["k4"])])
        elif p == "as":
            i = r.randrange(len(ctx["as"]))
            segs.append(["as", ctx["as"][i], {"n": i}])
        elif p == "w":
            i = r.randrange(len(ctx["words"]))
            w = ctx["words"][i]
            c = r.random()
            w2 = w if c < 0.5 else (w.upper() if c < 0.7 else (w.capitalize() if c < 0.9 else w.swapcase()))
            if w2.lower() != w.lower():
                w2 = w                      # a casing that is not one-to-one (sharp s -> SS) is no occurrence of the word
            segs.append(["w", w2, {"w": i}])
    return {"segs": segs, "eol": "\n"}


def gen_words(r, n, forbidden_text):
    """Sensitive words over g-z (length 3-8) that occur nowhere in `forbidden_text`, with overlaps."""
    words = []
    guard = 0
    low = forbidden_text.lower()
    while len(words) < n and guard < 400:
        guard += 1
        if words and r.random() < 0.35:
            b = r.choice(words)
            c = r.random()
            w = b + "".join(r.choice(GZ) for _ in range(r.randint(1, 3))) if c < 0.5 else (
                b[: max(3, len(b) - 1)] if c < 0.75 else "".join(r.choice(GZ) for _ in range(r.randint(1, 2))) + b)
        else:
            w = "".join(r.choice("gjkqvwxyz" if i % 2 == 0 else "ouyiz") for i in range(r.randint(3, 8)))
            if len(w) >= 4 and r.random() < 0.1:
                w = w[:2] + r.choice("üéñß") + w[3:]          # a non-ASCII letter inside (case folding beyond ASCII)
        w = w[:8]
        if len(w) < 3 or w in words or w in "netconanremoved" or w in low:
            continue
        if r.random() < 0.3:
            w = w.capitalize() if r.random() < 0.5 else w.upper()
        if w.lower() in [x.lower() for x in words]:
            continue
        words.append(w)
    return words


VOCAB_TEXT = "\n".join(BENIGN) + "\n" + "\n".join(t for t, _, _ in TEMPLATES) + "\n" + "\n".join(
    "".join(p[4:] for p in pat if p.startswith("lit:")) for pat in LINES_A4 + LINES_A6 + LINES_AS + LINES_W)
