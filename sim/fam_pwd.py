"""Family `pwd`: secret histories over 1-6 files.

mode "c08": one world; identity -> pseudonym index must be a function and injective over every
    replacement token found in every durable output of the run (lines, files, failing files,
    quoting variants, $9$ re-encodings and the same plaintext in clear).
mode "c07": paired deterministic worlds that differ only in the secret values (same classes, same
    lengths, same equality pattern): outputs, dump and INFO+ log records must be identical, every
    planted position must hold a pseudonym, no planted secret may occur anywhere in its own world.
"""
import copy
import posixpath
import random

from . import core
from . import decoders as D
from . import gen_common as GC
from . import grammar as G
from . import world as W
from .fam_fs import extract

NAME = "pwd"

QUOTES = [("", ""), ("", ""), ("", ""), ('"', '"'), ("'", "'"), ("[", "]"), ("{", "}"), ("", ";"), ("", ","), ('"', '";')]
# nested enclosing text: a pair of identical quotes with another enclosing character directly inside
NESTED = [('"[', ']"'), ("'\"", "\"'"), ('"{', '}"'), ("'", ",'"), ('"', ';"'), ("['", "']"), ('"', '"'), ("'", "'")]


def generate(seed, tier="quick", mode=None, **kw):
    r = random.Random(seed)
    mode = mode or r.choice(["c08", "c07"])
    feats = ["pwd"] + [f for f in ("ip", "words", "as") if r.random() < 0.25]
    # C07 pairs may use a salt whose first character is outside the Juniper alphabet: today a $9$ line then fails
    # the file (C14's subject), identically in both worlds
    o = GC.gen_opts(r, features=feats, cli_safe=True, j9=(mode != "c07" or r.random() > 0.1))
    if "words" in feats:
        GC.add_words(r, o, n=r.randint(1, 2))
        o["words"] = [w for w in o["words"] if len(w) >= 5] or None
    if mode == "c07" and o["salt"] and r.random() < 0.1:
        # secrets are removed just the same when the run also undoes an earlier IP anonymization
        o["ip"], o["undo"] = False, True
    nid = r.randint(2, 6)
    odd_salt = bool(o["salt"]) and o["salt"][0] not in G.J9_ALPHA or o["salt"] == ""
    cls_list = ["j9p", "j9p", "c9", "j9p-num", "text", "md5"] if odd_salt else None
    if mode == "c07" and not odd_salt and r.random() < 0.1:
        # an over-long md5 salt fails the file at that line today, identically in both worlds
        cls_list = ["text", "num", "hex", "t7", "md5", "md5-long", "md5-long", "j9p"]
    if mode == "c08" and r.random() < 0.25:
        cls_list = ["text", "text", "num", "hex", "t7", "md5", "j9p", "pseudo", "pseudo", "rwc"]
    elif mode == "c08" and r.random() < 0.12:
        # an over-long md5 salt makes the file fail at that line today; consistency must hold for what was written
        cls_list = ["text", "text", "num", "hex", "t7", "md5", "md5-long", "md5-long", "j9p"]
    many = mode == "c08" and r.random() < 0.06
    if many:
        # many identities in one run (pseudonym counters with two and more digits), fixed-width AWS forms among them
        nid = r.randint(11, 26)
        cls_list = ["aws", "aws", "aws", "text", "num", "hex", "t7"]
    secrets = GC.gen_secrets(r, nid, classes=cls_list, words=o["words"] or (), variant_rate=(0.4 if mode == "c08" else 0.15))
    if mode == "c08" and r.random() < 0.05:
        # many secrets that differ only in an embedded AS number of the small private block, all of them listed
        nums = r.sample(range(64512, 65535), 40)
        o["as"] = [str(x) for x in nums]
        secrets = {str(i): {"cls": "text", "a": "gw%d-ro-k%s" % (x, "xq"[i % 2]), "b": "gw%d-rw-k%s" % (x, "xq"[i % 2])}
                   for i, x in enumerate(nums)}
        nid = len(secrets)
        as_embedded = True
    else:
        as_embedded = False
    if mode == "c07" and r.random() < 0.25:
        # world A hides a relation that world B lacks: the same plaintext behind two type-7 encodings (other salt
        # index) and in clear.  The tokens are pairwise distinct in both worlds, so the outputs must not differ.
        from passlib.hash import cisco_type7
        n0 = len(secrets)
        for attempt in range(20):
            L = r.randint(10, 12)
            P, Q1, Q2, Q3 = ["".join(r.choice("ghjkmnpqrstvwxyzGHJKMNPQRSTVWXYZ23456789") for _ in range(L)) for _ in range(4)]
            s1, s2 = r.sample(range(0, 16), 2)
            grp = [("t7", cisco_type7.using(salt=s1).hash(P), cisco_type7.using(salt=s1).hash(Q1)),
                   ("t7", cisco_type7.using(salt=s2).hash(P), cisco_type7.using(salt=s2).hash(Q2)),
                   ("text", P, Q3)]
            if all(G.classify(a) == c and G.classify(b) == c and len(a) == len(b) for c, a, b in grp) and len({P, Q1, Q2, Q3}) == 4:
                for j, (c, a, b) in enumerate(grp[: r.choice([2, 3])]):
                    secrets[str(n0 + j)] = {"cls": c, "a": a, "b": b, "related": True}
                break
    if mode == "c07" and not odd_salt and r.random() < 0.25:
        # same format class ($9$...), same length, but only one of the pair is a decodable Juniper encoding
        n0 = len(secrets)
        for j in range(r.randint(1, 2)):
            P = G.gen_secret(r, "j9p")
            good = G.j9_encode(P, r.choice(G.J9_ALPHA), r.choice("nQz7i"))
            k = r.randint(6, len(good) - 2)
            bad = good[:k] + r.choice("$!#") + good[k + 1:]
            a, b = (good, bad) if r.random() < 0.5 else (bad, good)
            secrets[str(n0 + j)] = {"cls": "j9mix", "a": a, "b": b}
    if mode == "c08" and not odd_salt and r.random() < 0.2:
        # $9$ strings that share a well-formed prefix with a valid encoding but are not whole encodings themselves
        # (one character too many / too few): different secrets, today keyed by their raw text
        n0 = len(secrets)
        P = G.gen_secret(r, "j9p")
        sc, fl = r.choice(G.J9_ALPHA), r.choice("nQz7i")
        good = G.j9_encode(P, sc, fl)
        longer = G.j9_encode(P + "x", sc, fl)
        cand = [good, good + next(ch for ch in "Qz7nK" if not longer.startswith(good + ch)), longer[:-1]]
        used_vals = {v["a"] for v in secrets.values()}
        for j, val in enumerate(cand[: r.choice([2, 3])]):
            if val not in used_vals and len(val) > len(good) - 1:
                used_vals.add(val)
                secrets[str(n0 + j)] = {"cls": "j9raw", "a": val, "b": val}
    if mode == "c08" and not odd_salt and r.random() < 0.15:
        # a well-formed $9$ encoding of the EMPTY plaintext (salt character plus filler only): a decodable secret whose
        # plaintext is falsy, so "key by plaintext, else by raw text" decisions can disagree between sites (seeded C08-t)
        sc = r.choice("QzF3n6/9CAtpu0O" + G.J9_ALPHA)
        val = G.j9_encode("", sc, r.choice("nQz7i"))
        if len(val) >= 7 and val not in {v["a"] for v in secrets.values()}:
            secrets[str(len(secrets))] = {"cls": "j9raw", "a": val, "b": val}
    if mode == "c08" and not odd_salt and r.random() < 0.12:
        # Juniper plaintexts that differ only in white space at their ends (only ever seen encoded): different secrets
        n0 = len(secrets)
        P = G.gen_secret(r, "j9p")
        for j, val in enumerate(r.sample([P, P + " ", " " + P, "\t" + P, P + "\xa0", P + "  ", P + "\x1f"], r.randint(2, 4))):
            secrets[str(n0 + j)] = {"cls": "j9p-ws", "a": val, "b": val}
    ctx = GC.make_ctx(r, o)
    nfiles = r.randint(1, 6)
    paths, dirs, _ = GC.gen_tree(r, nfiles, hidden=False, dirs=r.random() < 0.5)
    ids = sorted(secrets)
    files = []
    budget = r.randint(3, 30)
    keep_only = ("keep",) if mode == "c08" else ("keep", "keep", "scrub")
    for p in paths:
        lines = []
        for _ in range(max(1, budget // len(paths) + r.randint(-1, 2))):
            c = r.random()
            if c < 0.62:
                ident = r.choice(ids)
                ln = GC.secret_line(r, ctx, secrets, kinds=(r.choice(keep_only),), ident=ident, mix_slots=r.random() < 0.6)
                if ln is None:
                    ln = GC.secret_line(r, ctx, secrets, kinds=("keep",))
                if ln is None:
                    continue
                # quoting / punctuation variants on plain trailing slots
                if ln["tmpl"].endswith("{}") and ln["kind"] == "keep" and r.random() < 0.4:
                    seg = [s for s in ln["segs"] if s[0] == "sec"][-1]
                    if "\"" not in ln["tmpl"]:
                        seg[2]["pre"], seg[2]["post"] = r.choice(QUOTES)
                elif ln["kind"] == "keep" and "\"" not in ln["tmpl"] and "'" not in ln["tmpl"] and r.random() < 0.12:
                    # ... and on slots in the middle of a line, where the line-level stripping has not consumed the tail
                    for seg in [s_ for s_ in ln["segs"] if s_[0] == "sec" and not s_[2].get("pre") and not s_[2].get("post")]:
                        if secrets[str(seg[2]["id"])]["cls"] in ("text", "num", "hex", "t7", "rwc") and r.random() < 0.7:
                            seg[2]["pre"], seg[2]["post"] = r.choice(NESTED)
                # the same Juniper plaintext in clear, in a slot that takes text
                for s in ln["segs"]:
                    if s[0] == "sec" and s[2].get("enc") == "j9" and r.random() < 0.3:
                        pc = {"j9p": "text", "j9p-num": "num", "j9p-hex": "hex", "j9p-l1": "text"}.get(secrets[str(s[2]["id"])]["cls"])
                        if pc is not None and pc in _allowed(ln["tmpl"]):
                            s[2]["enc"] = "plain"
                if r.random() < 0.012:
                    ln = GC.long_pad(r, ln, secrets)    # a line longer than the default buffer size, cut inside its sensitive part
                lines.append(ln)
            elif c < 0.80:
                lines.append(G.lit_line(r.choice(G.BENIGN)))
            elif c < 0.88:
                lines.append(G.expand(r, r.choice(G.LINES_A4), ctx))
            elif c < 0.94 and ctx["words"]:
                lines.append(G.expand(r, r.choice(G.LINES_W), ctx))
            else:
                lines.append(G.expand(r, r.choice(G.LINES_AS), ctx))
        for ln in lines:
            c = r.random()
            if c < 0.04:
                ln["eol"] = "\r"
            elif c < 0.08:
                ln["eol"] = "\r\n"
        files.append({"path": p, "lines": lines})
    if many and not as_embedded:
        order = sorted(secrets)
        r.shuffle(order)
        first = [GC.secret_line(r, ctx, secrets, kinds=("keep",), ident=i) for i in order]
        again = [GC.secret_line(r, ctx, secrets, kinds=("keep",), ident=i) for i in r.sample(order, 4)]
        files[0]["lines"] = [ln for ln in first + again if ln is not None]
    if as_embedded:
        files[0]["lines"] = [GC.secret_line(r, ctx, secrets, kinds=("keep",), ident=i, templates=[
            ("snmp-server community {} ro 1", G.ALL, "keep"), ("radius-server key {}", G.NOT_NUM, "keep")]) for i in sorted(secrets)]
    if mode == "c07" and r.random() < 0.12:
        # in world a one text secret happens to equal an ordinary, non-reserved token of the same configuration (a host name
        # that is also used as a password); in world b it does not.  The token itself stays, the secret's position does not.
        cands = [i for i in sorted(secrets) if secrets[i]["cls"] == "text" and not secrets[i].get("related")
                 and any(s[0] == "sec" and str(s[2]["id"]) == i and s[2].get("enc") != "j9" for f in files for ln in f["lines"] for s in ln["segs"])]
        if cands:
            i = r.choice(cands)
            tok = "edge-%s-%s" % ("".join(r.choice("abcdef0123456789") for _ in range(4)), "".join(r.choice("abcdef0123456789") for _ in range(3)))
            b = secrets[i]["b"]
            secrets[i] = {"cls": "text", "a": tok, "b": (b + "Zq4xw81kkk")[: len(tok)] if len(b) != len(tok) else b, "coincident": True}
            f = r.choice(files)
            f["lines"].insert(r.randint(0, len(f["lines"])), G.lit_line(r.choice(["hostname %s", " description link to %s", "snmp-server location rack of %s"]) % tok))
    entry = r.choice(["cli", "cli", "files", "file", "io"])
    plan = {"family": NAME, "seed": seed, "mode": mode, "files": files, "dirs": dirs, "secrets": secrets, "opts": o,
            "entry": entry, "knobs": GC.gen_knobs(r), "faults": [], "pre": [],
            "dump": "map" if (o["ip"] and r.random() < 0.5) else None}
    # faults biased onto the file that first introduces a reused secret and onto the files in between
    nf = r.choices([0, 1, 2], [45, 40, 15])[0] if entry in ("cli", "files") else 0
    for _ in range(nf):
        victim = paths[0] if r.random() < 0.4 else r.choice(paths)
        mp = W.mirror("in", "out", victim)
        kind = r.choice(["enospc", "eio_write", "eio_close", "eio_read", "undecodable", "out_is_dir", "vanish"])
        if kind == "undecodable":
            fl = next(f for f in files if f["path"] == victim)
            fl["lines"].insert(r.randint(0, len(fl["lines"])), {"segs": [["lit", "bad "], ["bad", "\xff"], ["lit", " tail"]], "eol": "\n"})
            plan["faults"].append({"kind": "undecodable", "path": victim})
        elif kind == "out_is_dir":
            plan["faults"].append({"kind": "out_is_dir", "path": victim})
        elif kind in ("enospc", "eio_write"):
            plan["faults"].append({"kind": kind, "path": mp, "at": r.randint(0, 300), "victim": victim})
        elif kind == "eio_close":
            plan["faults"].append({"kind": kind, "path": mp, "victim": victim})
        elif kind == "eio_read":
            plan["faults"].append({"kind": kind, "path": victim, "at": r.randint(0, 300)})
        else:
            plan["faults"].append({"kind": "vanish", "path": victim, "mode": "r", "nth": 1})
    if mode == "c08" and r.random() < 0.15:
        # a long-lived process: many earlier anonymizers over (parts of) the same lines, each released when done
        alltext = [G.render_line(ln, "a", secrets) for f in files for ln in f["lines"] if not any(s[0] == "bad" for s in ln["segs"])]
        other = r.random() < 0.5        # ... under this run's salt, or each under a salt of its own
        for _ in range(r.randint(6, 14)):
            sub = r.sample(alltext, r.randint(1, len(alltext))) if alltext else []
            plan["pre"].append({"kind": "lines", "drop": True, "salt": GC.gen_salt(r, True) if other else o["salt"], "text": "".join(sub)})
    if mode == "c07":
        # unrelated earlier anonymizers in the same process (some reserve this run's secrets)
        for _ in range(r.choices([0, 1, 2, 3], [40, 30, 20, 10])[0]):
            res = []
            if r.random() < 0.5:
                res.append({"secret": r.choice(ids)})
            if r.random() < 0.5:
                res.append({"word": "qux%d" % r.randint(0, 9)})
            plan["pre"].append({"kind": "anonymizer", "salt": GC.gen_salt(r, True), "reserved": res,
                                "pwd": r.random() < 0.7, "words": r.random() < 0.3})
    return plan


def _allowed(tmpl):
    for t, allowed, kind in G.TEMPLATES:
        if t == tmpl:
            return allowed
    return ()


def _world(plan, which):
    disk = {"dirs": list(plan["dirs"]), "files": {}}
    for f in plan["files"]:
        disk["files"][f["path"]] = G.render_file(f["lines"], which, plan["secrets"])
    for f in plan["faults"]:
        if f["kind"] == "out_is_dir":
            disk["dirs"].append(W.mirror("in", "out", f["path"]))
    pre = []
    for it in plan["pre"]:
        if it.get("kind") == "lines":
            pre.append({"kind": "lines", "drop": it.get("drop"), "opts": dict(plan["opts"], salt=it["salt"]), "text": it["text"]})
            continue
        reserved = []
        for x in it["reserved"]:
            reserved.append(plan["secrets"][x["secret"]][which] if "secret" in x else x["word"])
        pre.append({"kind": "anonymizer", "opts": {"pwd": it["pwd"], "salt": it["salt"], "reserved": reserved or None,
                                                   "words": ["zzunrelated"] if it["words"] else None}})
    sysf = [f for f in plan["faults"] if f["kind"] not in ("undecodable", "out_is_dir")]
    step = {"entry": plan["entry"], "opts": plan["opts"], "in": "in", "out": "out", "dump": plan["dump"]}
    return {"disk": disk, "procs": [{"knobs": plan["knobs"], "faults": sysf, "pre": pre, "steps": [step]}]}


def _durable_lines(h, plan, which):
    """(file path, generated line, output line) for every complete line of every durable output."""
    out = []
    snap = h["snap"]["files"]
    for f in plan["files"]:
        mp = W.mirror("in", "out", f["path"])
        data = snap.get(mp)
        if data is None:
            continue
        try:
            text = data.decode("utf-8")
        except UnicodeDecodeError:
            continue
        olines = text.split("\n")
        ncomplete = len(olines) - 1
        # lines of the generated file map 1:1 onto text lines (no generated literal contains a newline)
        gl = f["lines"]
        if any(s[0] == "bad" for ln in gl for s in ln["segs"]):
            # an undecodable file yields no trustworthy line mapping beyond what precedes the bad line
            cut = next(i for i, ln in enumerate(gl) if any(s[0] == "bad" for s in ln["segs"]))
            gl = gl[:cut]
        for n, ln in enumerate(gl):
            if n >= ncomplete:
                break
            out.append((f["path"], n, ln, olines[n]))
    return out


def check(plan):
    if plan["mode"] == "c08":
        return _check_c08(plan)
    return _check_c07(plan)


def _fired(plan, h):
    fired = {}
    for f in h["faults"]:
        if f.get("fired"):
            fired[f["kind"]] = fired.get(f["kind"], 0) + 1
    for f in plan["faults"]:
        if f["kind"] in ("undecodable", "out_is_dir"):
            fired[f["kind"]] = fired.get(f["kind"], 0) + 1
    return fired


def _dedup(V):
    seen, out = set(), []
    for v in V:
        k = (v["prop"], v["tag"])
        if k not in seen:
            seen.add(k)
            out.append(v)
    return out


# ---------------------------------------------------------------------------
def _check_c08(plan):
    V = []
    probes = {"tokens": 0, "unextractable": 0, "undecodable_token": 0, "j9_clear_identity": 0, "quoted": 0,
              "reuse_across_files": 0, "reuse_across_forms": 0, "tokens_from_failed_files": 0}
    H = W.run_world(_world(plan, "a"))
    h = H["procs"][0]
    o = plan["opts"]
    lit_ws = True
    by_id = {}       # identity -> {index: first witness}
    by_idx = {}      # index -> {identity: witness}
    text_by = {}     # (identity, class, pre, post) -> token text
    seen_files = {}
    seen_forms = {}
    nsec = len(plan["secrets"])
    reported = {f["path"] for f in plan["files"] if any(
        lv == "ERROR" and ("/simfs/" + f["path"]) in W.norm_paths(m) for lv, m, tb in h["logs"])}
    for path, n, ln, oline in _durable_lines(h, plan, "a"):
        if ln.get("kind") != "keep":
            continue
        toks = extract(ln, oline, plan["secrets"], lit_ws)
        if toks is None:
            # the enclosing text did not come through as written (C12's business): the replacement itself still counts here
            toks = extract(ln, oline, plan["secrets"], lit_ws, loose_enclosing=True)
            if toks is not None:
                probes["enclosing_text_changed"] = probes.get("enclosing_text_changed", 0) + 1
        if toks is None:
            probes["unextractable"] += 1
            continue
        for seg, tok in toks:
            if seg[0] != "sec":
                continue
            meta = seg[2]
            ident = str(meta["id"])
            idx, tcls = D.decode_any(tok, max_n=4 * nsec + 8)
            probes["tokens"] += 1
            if path in reported:
                probes["tokens_from_failed_files"] += 1
            if meta.get("pre") or meta.get("post"):
                probes["quoted"] += 1
            if meta.get("enc") == "plain" and plan["secrets"][ident]["cls"].startswith("j9p"):
                probes["j9_clear_identity"] += 1
            where = "%s line %d (%r)" % (path, n, oline[:90])
            # textual consistency within one encoding of one identity (independent of any decoder)
            key = (ident, meta.get("enc"))
            prev = text_by.setdefault(key, (tok, where))
            if prev[0] != tok and not (o["words"] or o["as"] or o["ip"]):
                V.append({"prop": "C08", "tag": "same-secret-different-text",
                          "detail": "secret #%s (%s) was replaced by %r at %s and by %r at %s" % (
                              ident, plan["secrets"][ident]["cls"], prev[0], prev[1], tok, where)})
            if idx is None:
                # residue of surrounding punctuation next to a pseudonym: still the same pseudonym
                core_tok = tok.strip("\\'\"[]{};,")
                if core_tok != tok and core_tok:
                    idx, tcls = D.decode_any(core_tok, max_n=4 * nsec + 8)
                    if idx is not None:
                        probes["decoded_after_strip"] = probes.get("decoded_after_strip", 0) + 1
            if idx is None:
                probes["undecodable_token"] += 1
                continue
            seen_files.setdefault(ident, set()).add(path)
            seen_forms.setdefault(ident, set()).add(ln["tmpl"])
            by_id.setdefault(ident, {}).setdefault(idx, where)
            by_idx.setdefault(idx, {}).setdefault(ident, where)
    for ident, m in sorted(by_id.items()):
        if len(m) > 1:
            items = sorted(m.items())
            V.append({"prop": "C08", "tag": "inconsistent",
                      "detail": "secret #%s (%s, %r) received pseudonyms %s: %s" % (
                          ident, plan["secrets"][ident]["cls"], plan["secrets"][ident]["a"],
                          [i for i, w in items], "; ".join("#%d at %s" % (i, w) for i, w in items[:3]))})
    for idx, m in sorted(by_idx.items()):
        if len(m) > 1:
            items = sorted(m.items())
            V.append({"prop": "C08", "tag": "collision",
                      "detail": "pseudonym #%d stands for different secrets %s: %s" % (
                          idx, [i for i, w in items], "; ".join("secret #%s at %s" % (i, w) for i, w in items[:3]))})
    probes["reuse_across_files"] = sum(1 for s in seen_files.values() if len(s) > 1)
    probes["reuse_across_forms"] = sum(1 for s in seen_forms.values() if len(s) > 1)
    fired = _fired(plan, h)
    nontrivial = len(by_id) >= 2 and (probes["reuse_across_files"] > 0 or probes["reuse_across_forms"] > 0)
    sig = core.digest(["c08", len(plan["files"]), sorted(fired), plan["entry"],
                       sorted((i, len(s)) for i, s in seen_files.items()),
                       [[s[2]["id"] for s in ln["segs"] if s[0] == "sec"] for f in plan["files"] for ln in f["lines"]]])
    return {"violations": _dedup(V), "digest": core.digest([W.public_hist(h)]), "sig": sig,
            "nontrivial": {"C08": nontrivial}, "faults": fired, "probes": probes, "steps": h["nsys"] + 1,
            "sample": _sample(plan)}


def _sample(plan):
    return {"mode": plan["mode"], "entry": plan["entry"], "faults": plan["faults"], "pre": plan["pre"],
            "opts": {k: v for k, v in plan["opts"].items() if v not in (None, False)},
            "files": {f["path"]: [G.render_line(ln, "a", plan["secrets"]).rstrip("\n")[:70] for ln in f["lines"][:4]]
                      for f in plan["files"][:3]}}


# ---------------------------------------------------------------------------
def _check_c07(plan):
    V = []
    probes = {"paired_runs": 1, "positions_checked": 0, "scrubbed_lines": 0, "info_records": 0, "error_records": 0,
              "prehistory_reserving_secret": 0, "unextractable": 0, "leak_scans": 0}
    HA = W.run_world(_world(plan, "a"))
    HB = W.run_world(_world(plan, "b"))
    ha, hb = HA["procs"][0], HB["procs"][0]
    o = plan["opts"]
    probes["prehistory_reserving_secret"] = sum(1 for it in plan["pre"] for x in it["reserved"] if "secret" in x)
    # (a) identical output trees and dump (inputs differ by construction: compare everything outside in/)
    fa = {k: v for k, v in ha["snap"]["files"].items() if not k.startswith("in/")}
    fb = {k: v for k, v in hb["snap"]["files"].items() if not k.startswith("in/")}
    for k in sorted(set(fa) | set(fb)):
        if fa.get(k) != fb.get(k):
            V.append({"prop": "C07", "tag": "output-depends-on-secret",
                      "detail": "%r differs between two worlds that differ only in secret values: %r vs %r" % (
                          k, _around(fa.get(k), fb.get(k)), _around(fb.get(k), fa.get(k)))})
            break
    if ha["steps"] and hb["steps"] and ha["steps"][0]["outcome"] != hb["steps"][0]["outcome"]:
        V.append({"prop": "C07", "tag": "outcome-depends-on-secret",
                  "detail": "run outcome %r vs %r" % (ha["steps"][0]["outcome"], hb["steps"][0]["outcome"])})
    # (b) identical INFO+ records
    la, lb = ha["logs"], hb["logs"]
    probes["info_records"] = len(la)
    probes["error_records"] = sum(1 for r_ in la if r_[0] == "ERROR")
    if la != lb:
        n = next((i for i, (x, y) in enumerate(zip(la, lb)) if x != y), min(len(la), len(lb)))
        V.append({"prop": "C07", "tag": "log-depends-on-secret",
                  "detail": "INFO+ record %d differs: %r vs %r" % (n, la[n][:2] if n < len(la) else None, lb[n][:2] if n < len(lb) else None)})
    # (b') anything printed to stdout/stderr is a channel too
    if (ha.get("stdout"), ha.get("stderr")) != (hb.get("stdout"), hb.get("stderr")):
        V.append({"prop": "C07", "tag": "log-depends-on-secret",
                  "detail": "stdout/stderr differ between the two worlds: %r vs %r" % (
                      (ha.get("stdout", "") + ha.get("stderr", ""))[:200], (hb.get("stdout", "") + hb.get("stderr", ""))[:200])})
    # (c) every planted position holds a pseudonym, context kept
    ctx_check = not (o["ip"] or o["words"] or o["as"])
    for which, h in (("a", ha), ("b", hb)):
        for path, n, ln, oline in _durable_lines(h, plan, which):
            if not any(s[0] == "sec" for s in ln["segs"]):
                continue
            if ln.get("kind") == "scrub":
                probes["scrubbed_lines"] += 1
                if G.SCRUB_MARK not in oline:
                    V.append({"prop": "C07", "tag": "not-scrubbed",
                              "detail": "world %s %s line %d: %r came out as %r" % (which, path, n, G.render_line(ln, which, plan["secrets"])[:100], oline[:100])})
                continue
            toks = extract(ln, oline, plan["secrets"], True)
            if toks is None:
                probes["unextractable"] += 1
                if ctx_check:
                    V.append({"prop": "C07", "tag": "context-changed",
                              "detail": "world %s %s line %d: %r came out as %r" % (which, path, n, G.render_line(ln, which, plan["secrets"])[:100], oline[:100])})
                continue
            for seg, tok in toks:
                if seg[0] != "sec":
                    continue
                probes["positions_checked"] += 1
                val = G.render_seg(seg, which, plan["secrets"])
                inner = val[len(seg[2].get("pre", "")): len(val) - len(seg[2].get("post", "")) or None]
                idx, tcls = D.decode_any(tok, max_n=40)
                if tok == inner or (idx is None and ctx_check):
                    V.append({"prop": "C07", "tag": "position-holds-no-pseudonym",
                              "detail": "world %s %s line %d: secret %r -> token %r (decodes to %r) in %r" % (
                                  which, path, n, inner, tok, idx, oline[:120]),
                              "key": "reserved-by-earlier" if any("secret" in x for it in plan["pre"] for x in it["reserved"]) else None})
        # (d) no planted secret anywhere in its own world's outputs, dump or INFO+ records
        blob = b"\n".join(v for k, v in sorted(h["snap"]["files"].items()) if not k.startswith("in/"))
        logblob = "\n".join(m + "\n" + tb for lv, m, tb in h["logs"]) + "\n" + h.get("stdout", "") + "\n" + h.get("stderr", "")
        for ident, s in sorted(plan["secrets"].items()):
            val = s[which]
            if s["cls"] in ("rwc", "pseudo") or s.get("coincident"):
                continue        # dictionary-like values: judged at their positions (clause c), not by substring
            probes["leak_scans"] += 1
            if val.encode("utf-8") in blob:
                V.append({"prop": "C07", "tag": "secret-in-output",
                          "detail": "world %s: secret #%s %r (%s) occurs in the output tree" % (which, ident, val, s["cls"]),
                          "key": "reserved-by-earlier" if any(x.get("secret") == ident for it in plan["pre"] for x in it["reserved"]) else None})
            if val in logblob:
                V.append({"prop": "C07", "tag": "secret-in-log",
                          "detail": "world %s: secret #%s %r occurs in an INFO+ log record" % (which, ident, val)})
    fired = _fired(plan, ha)
    nrep = sum(1 for f in plan["files"] for ln in f["lines"] for s in ln["segs"] if s[0] == "sec")
    nontrivial = (len(plan["secrets"]) >= 2 and nrep > len(plan["secrets"])) or (probes["error_records"] > 0)
    sig = core.digest(["c07", len(plan["files"]), sorted(fired), plan["entry"], len(plan["pre"]),
                       [[(s[2]["id"], plan["secrets"][str(s[2]["id"])]["cls"]) for s in ln["segs"] if s[0] == "sec"]
                        for f in plan["files"] for ln in f["lines"]], [ln.get("tmpl") for f in plan["files"] for ln in f["lines"]]])
    return {"violations": _dedup(V), "digest": core.digest([W.public_hist(ha), W.public_hist(hb)]), "sig": sig,
            "nontrivial": {"C07": nontrivial}, "faults": fired, "probes": probes, "steps": ha["nsys"] + hb["nsys"] + 2,
            "evals": 1, "sample": _sample(plan)}


def _around(a, b):
    if a is None:
        return None
    if b is None:
        return a[:70]
    n = 0
    while n < min(len(a), len(b)) and a[n] == b[n]:
        n += 1
    return a[max(0, n - 30):n + 40]


# ---------------------------------------------------------------------------
def shrink_candidates(plan):
    for key in ("faults", "pre"):
        for kept in core.drop_chunks(plan[key], 0):
            p = copy.deepcopy(plan)
            removed = [f for f in plan[key] if f not in kept]
            p[key] = copy.deepcopy(kept)
            if key == "faults":
                for f in removed:
                    if f["kind"] == "undecodable":
                        for fl in p["files"]:
                            if fl["path"] == f["path"]:
                                fl["lines"] = [ln for ln in fl["lines"] if not any(s[0] == "bad" for s in ln["segs"])]
            yield p
    if len(plan["files"]) > 1:
        for kept in core.drop_chunks(plan["files"], 1):
            p = copy.deepcopy(plan)
            p["files"] = copy.deepcopy(kept)
            yield p
    for i, f in enumerate(plan["files"]):
        for kept in core.drop_chunks(f["lines"], 0):
            p = copy.deepcopy(plan)
            p["files"][i]["lines"] = copy.deepcopy(kept)
            yield p
    o = plan["opts"]
    for key, simple in (("ip", False), ("words", None), ("as", None), ("pp", None), ("pa", None), ("private", False),
                        ("hb", None), ("salt", "s")):
        if o.get(key) != simple:
            p = copy.deepcopy(plan)
            p["opts"][key] = simple
            if key == "ip":
                p["dump"] = None
            yield p
    for key in ("bufsize", "chunk", "max_read", "max_write", "listing_key"):
        if plan["knobs"].get(key) is not None:
            p = copy.deepcopy(plan)
            p["knobs"][key] = None
            yield p
    if plan["entry"] != "files":
        p = copy.deepcopy(plan)
        p["entry"] = "files"
        yield p
    for i, f in enumerate(plan["files"]):
        for j, ln in enumerate(f["lines"]):
            for s_i, s in enumerate(ln["segs"]):
                if s[0] == "sec" and (s[2].get("pre") or s[2].get("post")):
                    p = copy.deepcopy(plan)
                    p["files"][i]["lines"][j]["segs"][s_i][2].pop("pre", None)
                    p["files"][i]["lines"][j]["segs"][s_i][2].pop("post", None)
                    yield p
