"""Seeded interleaving of caller threads (library use by a threaded host application).

Real threads, one baton: exactly one thread runs at any time.  Every line event inside the package under test is
a pre-emption point at which the seeded schedule may hand the baton to another live thread, so one key is one
exactly repeatable interleaving - the interpreter's own thread switching never gets a say (a thread that is not
holding the baton is parked on the condition variable).
"""
import random
import sys
import threading


class Interleaver:
    def __init__(self, key, n, rate=0.02, path_prefix=""):
        self.rng = random.Random(key)
        self.n = n
        self.rate = rate
        self.prefix = path_prefix
        self.cv = threading.Condition()
        self.turn = 0
        self.live = [True] * n
        self.switches = 0
        self.points = 0
        self.errors = [None] * n

    # -- scheduling ------------------------------------------------------
    def _pass_baton(self, idx):
        others = [i for i in range(self.n) if self.live[i] and i != idx]
        if others:
            self.turn = self.rng.choice(others)
            self.switches += 1
            self.cv.notify_all()

    def _point(self, idx):
        with self.cv:
            self.points += 1
            if self.rng.random() < self.rate:
                self._pass_baton(idx)
            while self.turn != idx:
                self.cv.wait()

    def _tracer(self, idx):
        prefix = self.prefix

        def local(frame, event, arg):
            if event == "line":
                self._point(idx)
            return local

        def glob(frame, event, arg):
            if frame.f_code.co_filename.startswith(prefix):
                return local
            return None

        return glob

    # -- running ---------------------------------------------------------
    def _body(self, idx, fn):
        with self.cv:
            while self.turn != idx:
                self.cv.wait()
        sys.settrace(self._tracer(idx))
        try:
            fn()
        except BaseException as e:  # recorded; the caller decides
            self.errors[idx] = e
        finally:
            sys.settrace(None)
            with self.cv:
                self.live[idx] = False
                if any(self.live):
                    self.turn = self.rng.choice([i for i in range(self.n) if self.live[i]])
                    self.cv.notify_all()

    def run(self, fns):
        ts = [threading.Thread(target=self._body, args=(i, fn), name="caller-%d" % i) for i, fn in enumerate(fns)]
        for t in ts:
            t.start()
        for t in ts:
            t.join()
        return self.errors
