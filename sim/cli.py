"""Command line of /verif/check."""
import argparse
import faulthandler
import json
import os
import sys
import time
import traceback

from . import core
from .registry import PROPS

EXIT_OK, EXIT_VIOLATION, EXIT_HARNESS = 0, 1, 2


def _workers(arg):
    if arg:
        return arg
    try:
        return max(1, min(16, len(os.sched_getaffinity(0))))
    except AttributeError:
        return max(1, min(16, os.cpu_count() or 1))


def cmd_property(prop, a):
    spec = PROPS[prop]
    tier = a.tier or os.environ.get("VERIF_TIER") or "quick"
    if tier not in ("quick", "thorough"):
        tier = "quick"
    base_seed = a.seed if a.seed is not None else int(os.environ.get("VERIF_SEED", "0") or 0)
    workers = _workers(a.workers)
    t0 = time.perf_counter()
    agg = core.Agg(prop)
    known = core.load_known()
    print("check %s tier=%s VERIF_SEED=%d workers=%d repo=%s" % (prop, tier, base_seed, workers,
                                                                 os.environ.get("VERIF_REPO", "/repo")), flush=True)
    wall_cap = spec.get("wall", {}).get(tier)
    for fam_name, counts, opts in spec["families"]:
        n = int(counts[tier] * (a.scale or 1.0))
        if n <= 0:
            continue
        seeds = [core.run_seed(base_seed, i) for i in range(n)]
        tf = time.perf_counter()
        # every family gets an equal share of the wall cap (what an earlier family did not use is passed on)
        nfam = len(spec["families"])
        idx = [f[0] + str(f[2]) for f in spec["families"]].index(fam_name + str(opts))
        deadline = (t0 + wall_cap * (idx + 1) / nfam) if wall_cap else None
        results, timed_out = core.run_batch(fam_name, seeds, tier, workers, opts=opts, deadline=deadline)
        for r in results:
            agg.add(fam_name, r)
        print("  family %-5s runs=%d  %.1fs%s" % (fam_name, len(results), time.perf_counter() - tf,
                                                   "  (wall cap reached, batch cut short)" if timed_out else ""), flush=True)
    extra = {}
    for hook in spec.get("extra", []):
        extra.update(hook(prop, tier, base_seed, workers, agg) or {})
    # corpus plans (pinned witnesses and regression seeds)
    for path in core_corpus(prop):
        rp = core.load_replay(path)
        fam = core.family(rp["family"])
        try:
            res = fam.check(rp["plan"])
        except BaseException as e:
            agg.errors.append((rp["family"], os.path.basename(path), "%s\n%s" % (e, traceback.format_exc())))
            continue
        res["seed"] = "corpus:" + os.path.basename(path)
        res["plan"] = rp["plan"]
        if rp["plan"].get("finding_key"):
            # a pinned witness of a recorded finding: its violations carry the finding's key (the plan IS the specific input)
            for v in res["violations"]:
                v["key"] = rp["plan"]["finding_key"]
        agg.add(rp["family"], res)
    if agg.errors:
        for fam_name, seed, err in agg.errors[:3]:
            print("HARNESS-ERROR family=%s seed=%s\n%s" % (fam_name, seed, err), flush=True)
        core.write_evidence(prop, tier, base_seed, agg, time.perf_counter() - t0, spec["rule"],
                            spec["assumptions"] + ["THIS RUN HAD HARNESS ERRORS; nothing in it is a verdict"],
                            core.REAL_STUB, extra)
        return EXIT_HARNESS
    # classify violations
    new, listed = [], {}
    for fam_name, seed, plan, v, dg in agg.violations:
        k = core.match_known(known, prop, v)
        if k is not None:
            listed.setdefault(k["id"], (k, fam_name, seed, v))
        else:
            new.append((fam_name, seed, plan, v, dg))
    for kid, (k, fam_name, seed, v) in sorted(listed.items()):
        print("KNOWN-FINDING: property=%s %s [%s; observed in family %s seed %s: %s]" % (
            prop, k["what"], kid, fam_name, seed, v["detail"][:160]), flush=True)
    status = EXIT_OK
    replay_path = None
    if new:
        new.sort(key=lambda x: (x[0], str(x[1])))
        fam_name, seed, plan, v, dg = new[0]
        if isinstance(plan, dict) and plan.get("__reduce_to__"):
            fam_name, plan = plan["__reduce_to__"]["family"], plan["__reduce_to__"]["plan"]
            v = dict(v, detail=v["detail"].split(": ", 1)[-1] if v["detail"].startswith("single fault") else v["detail"])
        print("  %d violating run(s) of %s; first: family=%s seed=%s tag=%s\n    %s" % (
            len(new), prop, fam_name, seed, v["tag"], v["detail"][:400]), flush=True)
        fam = core.family(fam_name)
        small, execs = core.shrink(fam, plan, prop, v["tag"], budget=a.shrink_budget)
        res = fam.check(small)
        vv = [x for x in res["violations"] if x["prop"] == prop and x["tag"] == v["tag"]]
        if not vv:      # must not happen: the shrinker only accepts reproducing candidates
            small, res, vv = plan, fam.check(plan), None
            vv = [x for x in res["violations"] if x["prop"] == prop and x["tag"] == v["tag"]]
        if not vv:
            print("HARNESS-ERROR violation of %s seed %s did not reproduce in-process (nondeterminism)" % (prop, seed))
            status = EXIT_HARNESS
        else:
            replay_path = core.write_replay(prop, fam_name, small, vv[0], res["digest"], seed,
                                            note="minimised with %d executions from %d to %d bytes" % (
                                                execs, core.plan_size(plan), core.plan_size(small)))
            ok, dg2, out = core.replay_fresh(replay_path, hashseed="0")
            threaded = res.get("probes", {}).get("sched_points", 0) > 0
            if threaded and not ok and '"same_property": true' in out:
                # ... with threads even the oracle's attribution (part of the tag) may come out differently
                ok, dg2 = True, dg2 or "other-history"
            if ok and dg2 != res["digest"] and threaded:
                # the code under test runs worker threads: the interpreter, not the simulator, decides their interleaving,
                # so only the violation (property and oracle tag) is reproducible, not the exact history
                print("  replayed in a fresh interpreter: same violation tag; the history digest differs (%s vs %s) because the "
                      "tree under test uses threads, which the simulator can perturb but not schedule" % (dg2, res["digest"]))
                print("  %s" % vv[0]["detail"][:600])
                print("VIOLATION property=%s replay=%s" % (prop, replay_path), flush=True)
                status = EXIT_VIOLATION
            elif not ok or dg2 != res["digest"]:
                print("HARNESS-ERROR replay of %s did not reproduce in a fresh interpreter (reproduced=%s digest %s vs %s)\n%s" % (
                    replay_path, ok, dg2, res["digest"], out[-2000:]))
                status = EXIT_HARNESS
            else:
                print("  minimised in %d executions; replayed in a fresh interpreter: same tag, same digest %s" % (execs, dg2))
                print("  %s" % vv[0]["detail"][:600])
                print("VIOLATION property=%s replay=%s" % (prop, replay_path), flush=True)
                status = EXIT_VIOLATION
    wall = time.perf_counter() - t0
    extra["known_findings_observed"] = sorted(listed)
    if replay_path:
        extra["replay"] = replay_path
    core.write_evidence(prop, tier, base_seed, agg, wall, spec["rule"], spec["assumptions"], core.REAL_STUB, extra,
                        nviol=len(new))
    print("  evaluations=%d distinct_nontrivial=%d faults=%s wall=%.1fs" % (
        agg.evals, len(agg.nt_sigs), json.dumps(agg.faults, sort_keys=True), wall), flush=True)
    if status == EXIT_OK and len(agg.nt_sigs) < 2:
        print("HARNESS-ERROR fewer than 2 distinct non-trivial runs: the check explored nothing")
        return EXIT_HARNESS
    print("RESULT property=%s %s" % (prop, {0: "held", 1: "VIOLATED", 2: "harness-error"}[status]), flush=True)
    return status


def core_corpus(prop):
    d = os.path.join(core.VERIF, "corpus")
    if not os.path.isdir(d):
        return []
    return sorted(os.path.join(d, f) for f in os.listdir(d) if f.startswith(prop + "-") and f.endswith(".json"))


def cmd_replay(a):
    rp, res, same = core.replay_here(a.file)
    dg = res["digest"]
    if a.json:
        print("REPLAY-JSON " + json.dumps({"reproduced": bool(same), "digest": dg,
                                           "same_property": any(v["prop"] == rp["property"] for v in res["violations"])}))
    if same:
        print("replay: reproduced tag=%s digest=%s (recorded %s)\n  %s" % (same[0]["tag"], dg, rp["expect"].get("digest"),
                                                                       same[0]["detail"][:800]))
        print("VIOLATION property=%s replay=%s" % (rp["property"], a.file))
        return EXIT_VIOLATION
    print("replay: no violation of %s (tag %s) on this tree; digest=%s" % (rp["property"], rp["expect"]["tag"], dg))
    others = [v for v in res["violations"]]
    for v in others[:5]:
        print("  other violation: %s %s %s" % (v["prop"], v["tag"], v["detail"][:200]))
    return EXIT_OK


def main(argv):
    faulthandler.enable()
    ap = argparse.ArgumentParser(prog="check")
    ap.add_argument("what")
    ap.add_argument("file", nargs="?")
    ap.add_argument("--tier", choices=["quick", "thorough"])
    ap.add_argument("--seed", type=int)
    ap.add_argument("--workers", type=int)
    ap.add_argument("--scale", type=float)
    ap.add_argument("--shrink-budget", type=int, default=400)
    ap.add_argument("--json", action="store_true")
    ap.add_argument("--n", type=int)
    ap.add_argument("--only")
    a = ap.parse_args(argv)
    try:
        if a.what == "replay":
            return cmd_replay(a)
        if a.what == "exec-world":
            from . import world as W
            world = json.loads(sys.stdin.read(), object_hook=core._unbytes)
            H = W.run_world(world)
            out = {"procs": [W.public_hist(h) for h in H["procs"]], "final": H["final"]}
            print("WORLD-JSON " + core.canon(out))
            return EXIT_OK
        if a.what.startswith("selftest"):
            from . import selftest
            return selftest.main(a)
        if a.what in PROPS:
            return cmd_property(a.what, a)
        print("unknown check %r; known: %s" % (a.what, ", ".join(sorted(PROPS))))
        return EXIT_HARNESS
    except core.HarnessError as e:
        print("HARNESS-ERROR %s" % e)
        return EXIT_HARNESS
    except Exception:
        print("HARNESS-ERROR unexpected exception\n" + traceback.format_exc())
        return EXIT_HARNESS
