"""Simulated netconan processes.

A process is a fresh import of the netconan package from the repository under test, with every
nondeterminism source of DESIGN.md §2.2 behind a seam whose value comes from the plan:

    hash seed      -> order key for the set that feeds the sensitive-word alternation
    random         -> random.seed(k)
    SystemRandom   -> random._urandom / os.urandom replaced by a keyed byte stream (passlib's rng)
    clock, pid     -> time.time / time.time_ns / os.getpid

Nothing in this module draws randomness or reads a real clock.
"""
import hashlib
import importlib
import importlib.abc
import importlib.machinery
import io
import logging
import os
import random
import sys
import time
import traceback

REPO = os.environ.get("VERIF_REPO", "/repo")
sys.dont_write_bytecode = True


def repo_path():
    return REPO


def _ensure_path():
    if _finder not in sys.meta_path:
        sys.meta_path.insert(0, _finder)
    if not sys.path or sys.path[0] != REPO:
        while REPO in sys.path:
            sys.path.remove(REPO)
        sys.path.insert(0, REPO)


class _CachingLoader(importlib.machinery.SourceFileLoader):
    """SourceFileLoader that keeps compiled code in memory, keyed by the source bytes.

    The source is re-read on every import, so an edited working tree is always what runs; only the
    compile step is saved (default_reserved_words.py alone costs ~20 ms to compile).
    """

    _cache = {}

    def get_code(self, fullname):
        path = self.get_filename(fullname)
        data = self.get_data(path)
        key = (path, hashlib.sha1(data).digest())
        code = self._cache.get(key)
        if code is None:
            code = self.source_to_code(data, path)
            self._cache[key] = code
        return code


class _NetconanFinder(importlib.abc.MetaPathFinder):
    def find_spec(self, name, path=None, target=None):
        if name != "netconan" and not name.startswith("netconan."):
            return None
        spec = importlib.machinery.PathFinder.find_spec(name, path)
        if spec is not None and isinstance(spec.loader, importlib.machinery.SourceFileLoader):
            spec.loader = _CachingLoader(spec.loader.name, spec.loader.path)
        return spec


_finder = _NetconanFinder()


class _TmpNames:
    """Replacement for tempfile's random name sequence (which is seeded from the kernel, not from a seam)."""

    def __init__(self, key):
        self.key, self.n = key, 0

    def __iter__(self):
        return self

    def __next__(self):
        self.n += 1
        return hashlib.sha1(b"tmpname:%d:%d" % (self.key, self.n)).hexdigest()[:8]


class _ByteStream:
    def __init__(self, key):
        self.key = str(key).encode()
        self.n = 0
        self.buf = b""
        self.calls = 0

    def read(self, n):
        self.calls += 1
        while len(self.buf) < n:
            self.buf += hashlib.sha256(self.key + b":" + str(self.n).encode()).digest()
            self.n += 1
        out, self.buf = self.buf[:n], self.buf[n:]
        return out


class _FakeClock:
    """Swaps datetime.datetime/date, argument-less time.localtime/gmtime/strftime/ctime and the host name for
    values derived from the plan's clock/host knobs (negative controls: netconan reads none of them today)."""

    def __init__(self, clock, host):
        import datetime as _dt
        import platform
        import socket
        self.mods = (_dt, platform, socket)
        real_dt, real_date = _dt.datetime, _dt.date
        base = float(clock)

        class FakeDateTime(real_dt):
            @classmethod
            def now(cls, tz=None):
                return real_dt.fromtimestamp(base, tz)

            @classmethod
            def utcnow(cls):
                return real_dt.utcfromtimestamp(base) if hasattr(real_dt, "utcfromtimestamp") else real_dt.fromtimestamp(base)

            @classmethod
            def today(cls):
                return real_dt.fromtimestamp(base)

        class FakeDate(real_date):
            @classmethod
            def today(cls):
                return real_date.fromtimestamp(base)

        self.fake = {"datetime": FakeDateTime, "date": FakeDate}
        self.real = {"datetime": real_dt, "date": real_date}
        self.base = base
        self.host = host

    def install(self):
        _dt, platform, socket = self.mods
        _dt.datetime, _dt.date = self.fake["datetime"], self.fake["date"]
        self.saved = (time.localtime, time.gmtime, time.strftime, time.ctime, platform.node, socket.gethostname)
        lt, gt, sf, ct = self.saved[:4]
        base = self.base
        time.localtime = lambda secs=None: lt(base if secs is None else secs)
        time.gmtime = lambda secs=None: gt(base if secs is None else secs)
        time.strftime = lambda fmt, t=None: sf(fmt, lt(base) if t is None else t)
        time.ctime = lambda secs=None: ct(base if secs is None else secs)
        platform.node = lambda: self.host
        socket.gethostname = lambda: self.host

    def uninstall(self):
        _dt, platform, socket = self.mods
        _dt.datetime, _dt.date = self.real["datetime"], self.real["date"]
        time.localtime, time.gmtime, time.strftime, time.ctime, platform.node, socket.gethostname = self.saved


class LogCapture(logging.Handler):
    """Captures (level, formatted message, formatted traceback) at INFO and above."""

    def __init__(self):
        super().__init__(level=logging.INFO)
        self.records = []

    def emit(self, record):
        try:
            args = record.args
            if isinstance(args, tuple):
                args = tuple(sorted(a, key=repr) if isinstance(a, (set, frozenset)) else a for a in args)
            try:
                msg = str(record.msg) % args if args else str(record.msg)
            except Exception:
                msg = "%r %% %r" % (record.msg, args)
            tb = ""
            if record.exc_info:
                tb = "".join(traceback.format_exception(*record.exc_info))
            self.records.append((record.levelname, msg, tb))
        except Exception as e:  # never let logging perturb the run
            self.records.append(("ERROR", "logcapture failure %r" % (e,), ""))


_NETCONAN_MODS = ("netconan.netconan", "netconan.anonymize_files", "netconan.ip_anonymization",
                  "netconan.sensitive_item_removal", "netconan.default_reserved_words",
                  "netconan.default_pwd_regexes", "netconan.utils.juniper_secrets")


class SimProcess:
    """One simulated interpreter running netconan.  Use as a context manager around its code."""

    probes = {"set_order_seam": 0}

    def __init__(self, knobs=None):
        self.knobs = dict(knobs or {})
        _ensure_path()
        for name in [n for n in sys.modules if n == "netconan" or n.startswith("netconan.")]:
            del sys.modules[name]
        importlib.invalidate_caches()
        self._clock = _FakeClock(self.knobs.get("clock", 1_600_000_000), self.knobs.get("host", "sim-host"))
        self._clock.install()        # `from datetime import datetime` at import time must bind the fake too
        try:
            for name in _NETCONAN_MODS:
                try:
                    importlib.import_module(name)
                except ImportError:
                    if name in ("netconan.netconan", "netconan.anonymize_files"):
                        raise
        finally:
            self._clock.uninstall()
        self.modules = {n: m for n, m in sys.modules.items() if n == "netconan" or n.startswith("netconan.")}
        f = getattr(self.modules["netconan"], "__file__", "") or ""
        if not os.path.abspath(f).startswith(os.path.abspath(REPO) + os.sep):
            raise RuntimeError("netconan imported from %r, not from %r" % (f, REPO))
        self.nc = self.modules["netconan.netconan"]
        self.af = self.modules["netconan.anonymize_files"]
        self.ipa = self.modules.get("netconan.ip_anonymization")
        self.sir = self.modules.get("netconan.sensitive_item_removal")
        self.log = LogCapture()
        self.set_order_entries = 0
        self._install_set_order()
        self._urandom = _ByteStream(self.knobs.get("urandom_key", 0))
        self._rand_state = None
        self._tmp_names = None
        self._active = False

    # -- hash-seed seam ----------------------------------------------------
    def _install_set_order(self):
        if self.knobs.get("real_set_order"):
            return          # real child interpreter: the real hash seed decides
        key = self.knobs.get("set_key") or "default-order"
        explicit = self.knobs.get("set_order")
        sir = self.sir
        cls = getattr(sir, "SensitiveWordAnonymizer", None) if sir else None
        if cls is None:
            return
        orig = cls.__dict__.get("_generate_sensitive_word_regex")
        if orig is None:
            return
        func = orig.__func__ if isinstance(orig, (classmethod, staticmethod)) else orig
        proc = self

        def ordered(c, sensitive_words, *a, **k):
            proc.set_order_entries += 1
            SimProcess.probes["set_order_seam"] += 1
            if isinstance(sensitive_words, (set, frozenset)):
                sensitive_words = sorted(
                    sensitive_words,
                    key=lambda w: (hashlib.md5((str(key) + "\0" + str(w)).encode()).hexdigest(), str(w)))
                if explicit:
                    rank = {str(w).lower(): i for i, w in enumerate(explicit)}
                    sensitive_words.sort(key=lambda w: rank.get(str(w).lower(), len(rank)))
            return func(c, sensitive_words, *a, **k)

        if isinstance(orig, classmethod):
            cls._generate_sensitive_word_regex = classmethod(ordered)
        elif isinstance(orig, staticmethod):
            cls._generate_sensitive_word_regex = staticmethod(lambda sw, *a, **k: ordered(cls, sw, *a, **k))
        else:
            cls._generate_sensitive_word_regex = ordered

    # -- activation ----------------------------------------------------------
    def __enter__(self):
        assert not self._active
        self._active = True
        self._saved_modules = {n: sys.modules.get(n) for n in list(sys.modules)
                               if n == "netconan" or n.startswith("netconan.")}
        for n in list(self._saved_modules):
            del sys.modules[n]
        sys.modules.update(self.modules)
        root = logging.getLogger()
        self._saved_log = (root.handlers[:], root.level, logging.root.disabled)
        root.handlers[:] = [self.log]
        # the capture handler keeps INFO and above; the root level itself is a knob (a host application, or `-l DEBUG`,
        # may run netconan with debug logging on: the output must not depend on it)
        root.setLevel(getattr(logging, str(self.knobs.get("log_level") or "INFO")))
        # the process's temporary directory lives on the simulated disk; names come from the keyed stream
        import tempfile
        self._saved_tmp = (tempfile.tempdir, tempfile._name_sequence)
        tempfile.tempdir = "/simfs/.systmp"
        if self._tmp_names is None:
            self._tmp_names = _TmpNames(self.knobs.get("urandom_key", 0))
        tempfile._name_sequence = self._tmp_names
        self._saved_rand = random.getstate()
        if self._rand_state is None:
            random.seed(self.knobs.get("rand_seed", 0))
        else:
            random.setstate(self._rand_state)
        self._saved_fns = (random._urandom, os.urandom, time.time, time.time_ns, os.getpid)
        random._urandom = self._urandom.read
        os.urandom = self._urandom.read
        clock = self.knobs.get("clock", 1_600_000_000)
        pid = self.knobs.get("pid", 4242)
        tick = [0]

        def fake_time():
            tick[0] += 1
            return float(clock) + tick[0] * 0.001

        time.time = fake_time
        time.time_ns = lambda: int(fake_time() * 1e9)
        os.getpid = lambda: pid
        self._clock.install()
        # explicit hash() of str/bytes is part of the hash-seed dimension (dict/set internals are not reachable this
        # way; the real child interpreters cover those)
        import builtins
        self._saved_hash = builtins.hash
        real_hash = builtins.hash
        hkey = str(self.knobs.get("set_key") or "default-order")
        if not self.knobs.get("real_set_order"):
            def seeded_hash(obj):
                if type(obj) in (str, bytes):
                    data = obj.encode("utf-8", "surrogatepass") if isinstance(obj, str) else obj
                    return int.from_bytes(hashlib.sha256(hkey.encode() + b"\0" + data).digest()[:8], "little", signed=True)
                return real_hash(obj)
            builtins.hash = seeded_hash
        self._saved_cwd = (os.getcwd, os.getcwdb)
        cwd = self.knobs.get("cwd")
        if cwd:
            os.getcwd = lambda: cwd
            os.getcwdb = lambda: cwd.encode()
        self._saved_env = None
        env = self.knobs.get("environ")
        if env:
            self._saved_env = {k: os.environ.get(k) for k in env}
            os.environ.update(env)
        return self

    def __exit__(self, *a):
        import builtins
        import tempfile
        tempfile.tempdir, tempfile._name_sequence = self._saved_tmp
        builtins.hash = self._saved_hash
        self._clock.uninstall()
        random._urandom, os.urandom, time.time, time.time_ns, os.getpid = self._saved_fns
        os.getcwd, os.getcwdb = self._saved_cwd
        if self._saved_env:
            for k, v in self._saved_env.items():
                if v is None:
                    os.environ.pop(k, None)
                else:
                    os.environ[k] = v
        self._rand_state = random.getstate()
        random.setstate(self._saved_rand)
        root = logging.getLogger()
        root.handlers[:] = self._saved_log[0]
        root.setLevel(self._saved_log[1])
        for n in [n for n in sys.modules if n == "netconan" or n.startswith("netconan.")]:
            del sys.modules[n]
        for n, m in self._saved_modules.items():
            if m is not None:
                sys.modules[n] = m
        self._active = False
        return False

    def entropy_used(self):
        return self._urandom.calls


def strip_stderr():
    """argparse writes usage errors to stderr; keep runs quiet."""
    return io.StringIO()
