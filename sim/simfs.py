"""SimFS: an in-memory POSIX-like file system behind the interpreter's syscall primitives.

Only the primitives are simulated (stat, lstat, scandir, listdir, mkdir, rmdir, unlink, rename,
replace, open and the raw file objects).  os.walk, os.makedirs, os.path.*, pathlib and the io
stack above the raw layer (BufferedReader/Writer, TextIOWrapper) are the real library code.

Everything the simulator decides (listing order, buffer sizes, short reads/writes, faults, crash
point) comes from the `knobs`/`faults` data handed in by the plan; nothing here draws randomness
or reads a clock.
"""
import builtins
import errno
import hashlib
import io
import os
import posixpath
import stat as statmod


class SimCrash(BaseException):
    """The simulated process is killed at this instant (not catchable by `except Exception`)."""


class SimUnsupported(BaseException):
    """A primitive the simulator does not model was used on a virtual path: harness error."""


def _rank(key, name):
    return hashlib.md5((str(key) + "\0" + name).encode("utf-8", "surrogateescape")).hexdigest()


class _Stat:
    def __init__(self, mode, size, ino, mtime):
        self.st_mode = mode
        self.st_size = size
        self.st_ino = ino
        self.st_dev = 0x51
        self.st_nlink = 1
        self.st_uid = self.st_gid = 0
        self.st_mtime = self.st_atime = self.st_ctime = float(mtime)
        self.st_mtime_ns = self.st_atime_ns = self.st_ctime_ns = int(mtime) * 10**9
        self.st_blocks = (size + 511) // 512
        self.st_blksize = 4096

    def __getitem__(self, i):
        return (self.st_mode, self.st_ino, self.st_dev, self.st_nlink, self.st_uid, self.st_gid,
                self.st_size, int(self.st_atime), int(self.st_mtime), int(self.st_ctime))[i]


class _DirEntry:
    def __init__(self, fs, dirpath, name):
        self._fs = fs
        self.name = name
        self.path = posixpath.join(dirpath, name)
        self._q = fs._norm(self.path)

    def is_dir(self, *, follow_symlinks=True):
        return self._q in self._fs.dirs

    def is_file(self, *, follow_symlinks=True):
        return self._q in self._fs.files

    def is_symlink(self):
        return False

    def is_junction(self):
        return False

    def inode(self):
        return self._fs._ino(self._q)

    def stat(self, *, follow_symlinks=True):
        return self._fs._stat_q(self._q)

    def __fspath__(self):
        return self.path

    def __repr__(self):
        return "<SimDirEntry %r>" % self.name


class _ScanDir:
    def __init__(self, entries):
        self._it = iter(entries)

    def __iter__(self):
        return self

    def __next__(self):
        return next(self._it)

    def __enter__(self):
        return self

    def __exit__(self, *a):
        self.close()

    def close(self):
        self._it = iter(())


class _RawReader(io.RawIOBase):
    def __init__(self, fs, q, data, fault):
        self._fs, self._q, self._d, self._p = fs, q, bytes(data), 0
        self._fault = fault
        self.name = q

    def readable(self):
        return True

    def fileno(self):
        return self._fs._fake_fileno(self._q)

    def readinto(self, b):
        fs = self._fs
        fs._syscall("read", self._q)
        n = min(len(b), len(self._d) - self._p)
        mr = fs.knobs.get("max_read")
        if mr:
            n = min(n, mr)
        f = self._fault
        if f is not None:
            at = f["at"]
            if self._p >= at:
                fs._fire(f)
                raise OSError(errno.EIO, "Input/output error")
            n = min(n, at - self._p)
        b[:n] = self._d[self._p:self._p + n]
        self._p += n
        fs._note_bytes(n)
        return n

    def close(self):
        if not self.closed:
            self._fs._syscall("close", self._q)
        super().close()


class _RawWriter(io.RawIOBase):
    def __init__(self, fs, q, wfault, cfault, append=False):
        self._fs, self._q = fs, q
        self._wfault, self._cfault = wfault, cfault
        self._append = append
        self._pos = 0
        self.name = q

    def writable(self):
        return True

    def seekable(self):
        return False

    def fileno(self):
        return self._fs._fake_fileno(self._q)

    def write(self, b):
        fs = self._fs
        fs._syscall("write", self._q)
        data = bytes(b)
        if fs.dead:
            return len(data)
        n = len(data)
        mw = fs.knobs.get("max_write")
        if mw:
            n = min(n, mw)
        f = self._wfault
        cur = fs.files.get(self._q)
        if cur is None:
            # unlinked/renamed while open: bytes go to the orphaned inode
            return n
        if self._append:
            self._pos = len(cur)
        if f is not None:
            room = f["at"] - self._pos
            if room <= 0:
                fs._fire(f)
                raise OSError(errno.ENOSPC if f["kind"] == "enospc" else errno.EIO,
                              "No space left on device" if f["kind"] == "enospc" else "Input/output error")
            n = min(n, room)
        if self._pos > len(cur):
            cur += b"\0" * (self._pos - len(cur))
        cur[self._pos:self._pos + n] = data[:n]
        self._pos += n
        fs.raw_written[self._q] = fs.raw_written.get(self._q, 0) + n
        fs._note_bytes(n)
        return n

    def close(self):
        if self.closed:
            return
        fs = self._fs
        try:
            fs._syscall("close", self._q)
            if self._cfault is not None and not fs.dead:
                fs._fire(self._cfault)
                raise OSError(errno.EIO, "Input/output error")
        finally:
            fs.open_writers.pop(self._q, None)
            super().close()


class _RecWriter:
    """Thin recorder around the real text object: remembers the text handed to write()."""

    def __init__(self, fs, q, f):
        self.__dict__["_f"] = f
        self.__dict__["_fs"] = fs
        self.__dict__["_q"] = q

    def write(self, s):
        fs = self._fs
        if isinstance(s, str) and not fs.crashed:
            fs.handed.setdefault(self._q, []).append(s)
        return self._f.write(s)

    def writelines(self, lines):
        for s in lines:
            self.write(s)

    def __enter__(self):
        self._f.__enter__()
        return self

    def __exit__(self, *a):
        return self._f.__exit__(*a)

    def __iter__(self):
        return iter(self._f)

    def __getattr__(self, n):
        return getattr(self._f, n)

    def __setattr__(self, n, v):
        setattr(self._f, n, v)


_PRIMS = ("stat", "lstat", "scandir", "listdir", "mkdir", "rmdir", "unlink", "remove", "rename",
          "replace", "open", "chmod", "chown", "symlink", "link", "readlink", "truncate", "utime",
          "access", "mkfifo", "mknod", "listxattr")

# The simulated process's system temporary directory (tempfile.tempdir points here, see proc.SimProcess).  It is a
# second file system unless the knob `tmp_same_fs` is set: a rename between it and the rest of the disk fails with EXDEV,
# as it does between a tmpfs /tmp and a data volume.  It is not part of snapshots (nobody's output tree).
SYSTMP = ".systmp"


class SimFS:
    """One simulated disk.  `install()`/`uninstall()` swap the interpreter primitives."""

    def __init__(self, disk=None, knobs=None, root="/simfs"):
        self.root = root
        self.dirs = {self.root}
        self.files = {}
        self.inos = {}
        self.knobs = dict(knobs or {})
        self.faults = []
        self.trace = []          # (seq, op, relpath, extra)
        self.mutations = []      # (seq, op, relpath)
        self.handed = {}         # abs path -> [text handed to write()]  (per process; reset by new_process)
        self.raw_written = {}
        self.open_writers = {}
        self.fds = {}
        self.fd_raw = {}
        self.fake_fds = {}
        self._sched_n = {}
        self.sched_points = 0
        self.rel_base = None
        self.nsys = 0
        self.dead = False        # after a crash: nothing reaches the disk any more
        self.crashed = False
        self.clock = 1000
        self._installed = None
        if disk:
            self.load(disk)

    # ---- content -------------------------------------------------------
    def load(self, disk):
        for d in disk.get("dirs", []):
            self._mk_all(self.abs(d))
        for p, data in disk.get("files", {}).items():
            q = self.abs(p)
            self._mk_all(posixpath.dirname(q))
            self.files[q] = bytearray(data if isinstance(data, (bytes, bytearray)) else data.encode("latin-1"))
        self.dirs.add(self.root + "/" + SYSTMP)
        for q in self.files:
            if q in self.dirs or any(a in self.files for a in self._ancestors(q)):
                raise ValueError("inconsistent disk image: %r is both a file and a directory (or below a file)" % q)

    def _ancestors(self, q):
        out = []
        while q != self.root and q:
            q = posixpath.dirname(q)
            out.append(q)
        return out

    def _mk_all(self, q):
        while q and q != self.root and q not in self.dirs:
            self.dirs.add(q)
            q = posixpath.dirname(q)

    def abs(self, rel):
        rel = rel.strip("/")
        return self.root if rel in ("", ".") else self.root + "/" + rel

    def rel(self, q):
        return q[len(self.root) + 1:] if q != self.root else ""

    def _in_tmp(self, q):
        t = self.root + "/" + SYSTMP
        return q == t or q.startswith(t + "/")

    def snapshot(self):
        return {"dirs": sorted(self.rel(d) for d in self.dirs if d != self.root and not self._in_tmp(d)),
                "files": {self.rel(p): bytes(b) for p, b in sorted(self.files.items()) if not self._in_tmp(p)}}

    def new_process(self, knobs=None, faults=None):
        """A new simulated process starts on the surviving disk."""
        self.knobs = dict(knobs or {})
        self.faults = [dict(f, fired=0) for f in (faults or [])]
        self.handed = {}
        self.raw_written = {}
        self.open_writers = {}
        self.fds = {}
        self.fd_raw = {}
        self.fake_fds = {}
        self._sched_n = {}
        self.sched_points = 0
        self.rel_base = None
        self.nsys = 0
        self.dead = False
        self.crashed = False
        self.trace = []
        self.mutations = []

    # ---- plumbing --------------------------------------------------------
    def _mine(self, p):
        try:
            p = os.fspath(p)
        except TypeError:
            return False
        if isinstance(p, bytes):
            try:
                p = p.decode()
            except UnicodeDecodeError:
                return False
        if isinstance(p, str) and p and not p.startswith("/") and getattr(self, "rel_base", None):
            return True     # a relative path, while the simulated process's working directory lies on this disk
        return isinstance(p, str) and (p == self.root or p.startswith(self.root + "/"))

    def _norm(self, p):
        p = os.fspath(p)
        if isinstance(p, bytes):
            p = p.decode()
        if p and not p.startswith("/") and getattr(self, "rel_base", None):
            p = self.rel_base + "/" + p
        return posixpath.normpath(p)

    def _ino(self, q):
        if q not in self.inos:
            self.inos[q] = len(self.inos) + 100
        return self.inos[q]

    def _fire(self, f):
        f["fired"] = f.get("fired", 0) + 1

    def _find_fault(self, kinds, q, **match):
        r = self.rel(q)
        for f in self.faults:
            if f["kind"] in kinds and f.get("path") == r:
                ok = True
                for k, v in match.items():
                    if f.get(k, v) != v:
                        ok = False
                if ok:
                    return f
        return None

    def _syscall(self, op, q, extra=None, mut=False):
        """Account for one primitive; this is where crash/interrupt faults strike."""
        if self.dead:
            return      # the process is gone: whatever Python's unwinding still calls never happened
        sk = self.knobs.get("sched_key")
        if sk is not None:
            import threading
            th = threading.current_thread()
            if th is not threading.main_thread() and not th.name.startswith("caller-"):
                # (caller threads of a threaded host are scheduled exactly by sim/threads.py and need no noise)
                # netconan has no threads; if a change introduces worker threads, their syscalls are delayed by a
                # keyed pattern so that two executions with different keys see different interleavings (best effort:
                # the interpreter's own thread switching is not under the simulator's control)
                import time as _t
                n = self._sched_n.get(th.name, 0) + 1
                self._sched_n[th.name] = n
                self.sched_points += 1
                if hashlib.md5(("%s:%s:%d" % (sk, th.name.split("_")[-1], n)).encode()).digest()[0] < 80:
                    _t.sleep(0.004)
        self.nsys += 1
        self.clock += 1
        if not self.dead:
            for f in self.faults:
                if f["kind"] in ("crash", "interrupt") and not f.get("fired") and f["at"] == self.nsys:
                    self._fire(f)
                    self.trace.append((self.nsys, f["kind"], self.rel(q), op))
                    if f["kind"] == "crash":
                        self.dead = True
                        self.crashed = True
                        raise SimCrash("crash at syscall %d (%s %s)" % (self.nsys, op, self.rel(q)))
                    raise KeyboardInterrupt()
        self.trace.append((self.nsys, op, self.rel(q), extra))
        if mut:
            self.mutations.append((self.nsys, op, self.rel(q)))

    def _fake_fileno(self, q):
        for fd, p in self.fake_fds.items():
            if p == q:
                return fd
        fd = 2_000_000 + len(self.fake_fds)
        self.fake_fds[fd] = q
        return fd

    def p_fd_op(self, name, fd, *a):
        """fsync / fstat / ftruncate / fchmod on a descriptor of a simulated file."""
        q = self.fake_fds.get(fd) or self.fds[fd][0]
        self._syscall(name, q, mut=(name in ("ftruncate",)))
        if name == "fstat":
            return self._stat_q(q)
        if name == "ftruncate" and not self.dead and q in self.files:
            del self.files[q][a[0]:]
        return None

    def p_noop(self, name, path, *a, **k):
        """chmod / utime / chown: accepted, traced, no effect on content."""
        q = self._norm(path)
        self._syscall(name, q, mut=True)
        if q not in self.files and q not in self.dirs:
            self._err(errno.ENOENT, q)
        return None

    def _note_bytes(self, n):
        if self.trace and self.trace[-1][1] in ("read", "write"):
            self.trace[-1] = self.trace[-1][:3] + (n,)

    def _err(self, eno, q):
        raise OSError(eno, os.strerror(eno), q)

    def _check_parents(self, q):
        """ENOENT/ENOTDIR for a missing / non-directory ancestor."""
        if q == self.root:
            return
        parent = posixpath.dirname(q)
        cur = self.root
        for part in self.rel(parent).split("/") if parent != self.root else []:
            cur = cur + "/" + part
            if cur in self.files:
                self._err(errno.ENOTDIR, q)
            if cur not in self.dirs:
                self._err(errno.ENOENT, q)

    # ---- primitives ------------------------------------------------------
    def _stat_q(self, q):
        self._check_parents(q)
        if q in self.dirs:
            return _Stat(statmod.S_IFDIR | 0o755, 4096, self._ino(q), 1000)
        if q in self.files:
            return _Stat(statmod.S_IFREG | 0o644, len(self.files[q]), self._ino(q), 1000)
        self._err(errno.ENOENT, q)

    def p_stat(self, path, *, dir_fd=None, follow_symlinks=True):
        q = self._norm(path)
        self._syscall("stat", q)
        return self._stat_q(q)

    def _listing(self, q):
        if q in self.files:
            self._err(errno.ENOTDIR, q)
        self._check_parents(q)
        if q not in self.dirs:
            self._err(errno.ENOENT, q)
        f = self._find_fault(("scandir_eacces",), q)
        if f is not None:
            self._fire(f)
            self._err(errno.EACCES, q)
        pre = q + "/"
        names = {x[len(pre):].split("/", 1)[0] for x in self.dirs if x.startswith(pre)}
        names |= {x[len(pre):].split("/", 1)[0] for x in self.files if x.startswith(pre)}
        explicit = self.knobs.get("listing_explicit")
        if explicit is not None:
            order = explicit.get(self.rel(q) or ".", [])
            return sorted(names, key=lambda n: (order.index(n) if n in order else len(order), n))
        key = self.knobs.get("listing_key")
        if key is None:
            return sorted(names)
        return sorted(names, key=lambda n: (_rank(key, n), n))

    def p_scandir(self, path="."):
        q = self._norm(path)
        self._syscall("scandir", q)
        names = self._listing(q)
        return _ScanDir([_DirEntry(self, os.fspath(path), n) for n in names])

    def p_listdir(self, path="."):
        q = self._norm(path)
        self._syscall("listdir", q)
        return self._listing(q)

    def p_mkdir(self, path, mode=0o777, *, dir_fd=None):
        q = self._norm(path)
        self._syscall("mkdir", q, mut=True)
        f = self._find_fault(("mkdir_eacces", "mkdir_race"), q)
        if f is not None and not f.get("fired"):
            self._fire(f)
            if f["kind"] == "mkdir_eacces":
                self._err(errno.EACCES, q)
            # another process created it a moment ago
            if not self.dead and q not in self.files:
                self._check_parents(q)
                self.dirs.add(q)
            self._err(errno.EEXIST, q)
        if q in self.dirs or q in self.files:
            self._err(errno.EEXIST, q)
        self._check_parents(q)
        if not self.dead:
            self.dirs.add(q)

    def p_rmdir(self, path, *, dir_fd=None):
        q = self._norm(path)
        self._syscall("rmdir", q, mut=True)
        if q in self.files:
            self._err(errno.ENOTDIR, q)
        if q not in self.dirs:
            self._err(errno.ENOENT, q)
        pre = q + "/"
        if any(x.startswith(pre) for x in self.dirs) or any(x.startswith(pre) for x in self.files):
            self._err(errno.ENOTEMPTY, q)
        if not self.dead:
            self.dirs.discard(q)

    def p_unlink(self, path, *, dir_fd=None):
        q = self._norm(path)
        self._syscall("unlink", q, mut=True)
        if q in self.dirs:
            self._err(errno.EISDIR, q)
        self._check_parents(q)
        if q not in self.files:
            self._err(errno.ENOENT, q)
        if not self.dead:
            del self.files[q]

    def p_rename(self, src, dst, *, src_dir_fd=None, dst_dir_fd=None):
        if not (self._mine(src) and self._mine(dst)):
            raise SimUnsupported("rename across the virtual root: %r -> %r" % (src, dst))
        a, b = self._norm(src), self._norm(dst)
        self._syscall("rename", a, extra=self.rel(b), mut=True)
        if self._in_tmp(a) != self._in_tmp(b) and not self.knobs.get("tmp_same_fs"):
            self.probe_xdev = getattr(self, "probe_xdev", 0) + 1
            self._err(errno.EXDEV, a)
        self.mutations.append((self.nsys, "rename-to", self.rel(b)))
        self._check_parents(a)
        self._check_parents(b)
        if a in self.files:
            if b in self.dirs:
                self._err(errno.EISDIR, b)
            if not self.dead:
                self.files[b] = self.files.pop(a)
            return
        if a in self.dirs:
            if b in self.files:
                self._err(errno.ENOTDIR, b)
            pre = b + "/"
            if b in self.dirs and (any(x.startswith(pre) for x in self.dirs) or any(x.startswith(pre) for x in self.files)):
                self._err(errno.ENOTEMPTY, b)
            if not self.dead:
                ap = a + "/"
                for x in [x for x in self.dirs if x == a or x.startswith(ap)]:
                    self.dirs.discard(x)
                    self.dirs.add(b + x[len(a):])
                for x in [x for x in self.files if x.startswith(ap)]:
                    self.files[b + x[len(a):]] = self.files.pop(x)
            return
        self._err(errno.ENOENT, a)

    def p_os_open(self, path, flags, mode=0o777, *, dir_fd=None):
        """os.open on a virtual path: a fake descriptor that os.fdopen / open(fd) turns into a file object."""
        q = self._norm(path)
        acc = flags & (os.O_RDONLY | os.O_WRONLY | os.O_RDWR)
        kind = "r" if acc == os.O_RDONLY else ("a" if flags & os.O_APPEND else "w")
        # O_RDWR: the direction is decided by the mode given to fdopen/open(fd)
        self._syscall("open", q, extra=kind, mut=(kind != "r"))
        self._open_checks(q, kind)
        if kind != "r":
            if q in self.files:
                if flags & os.O_EXCL and flags & os.O_CREAT:
                    self._err(errno.EEXIST, q)
                if flags & os.O_TRUNC and not self.dead:
                    self.files[q] = bytearray()
            else:
                if not flags & os.O_CREAT:
                    self._err(errno.ENOENT, q)
                if not self.dead:
                    self.files[q] = bytearray()
        elif q not in self.files:
            self._err(errno.ENOENT, q)
        self._next_fd = getattr(self, "_next_fd", 1_000_000) + 1
        self.fds[self._next_fd] = (q, kind)
        return self._next_fd

    def _open_checks(self, q, kind):
        f = self._find_fault(("vanish", "eacces"), q, mode=("r" if kind == "r" else "w"))
        if f is not None:
            nth = f.get("nth", 1)
            f["seen"] = f.get("seen", 0) + 1
            if f["seen"] == nth:
                self._fire(f)
                if f["kind"] == "vanish":
                    if not self.dead:
                        self.files.pop(q, None)
                    self._err(errno.ENOENT, q)
                self._err(errno.EACCES, q)
        if q in self.dirs:
            self._err(errno.EISDIR, q)
        self._check_parents(q)

    def p_fd_close(self, fd):
        q, kind = self.fds.pop(fd)
        raw = self.fd_raw.pop(fd, None)
        if raw is not None:
            raw.close()
        else:
            self._syscall("close", q)

    def p_fd_write(self, fd, data):
        """os.write on a descriptor from p_os_open: one raw write (may be short, may hit a write fault)."""
        q, kind = self.fds[fd]
        raw = self.fd_raw.get(fd)
        if raw is None:
            raw = self.fd_raw[fd] = _RawWriter(self, q, self._find_fault(("enospc", "eio_write"), q),
                                               self._find_fault(("eio_close",), q), append=(kind == "a"))
        return raw.write(data)

    def p_fd_read(self, fd, n):
        q, kind = self.fds[fd]
        raw = self.fd_raw.get(fd)
        if raw is None:
            raw = self.fd_raw[fd] = _RawReader(self, q, self.files.get(q, b""), self._find_fault(("eio_read",), q))
        buf = bytearray(n)
        k = raw.readinto(buf)
        return bytes(buf[:k])

    def p_open(self, file, mode="r", buffering=-1, encoding=None, errors=None, newline=None,
               closefd=True, opener=None):
        binary = "b" in mode
        if isinstance(file, int):
            # open(fd) / os.fdopen(fd) on a descriptor from p_os_open
            q, fkind = self.fds.pop(file)
            if "r" in mode and "+" not in mode:
                fkind = "r"
            elif "+" in mode:
                raise SimUnsupported("open(fd, %r)" % mode)
            bs = self.knobs.get("bufsize") or io.DEFAULT_BUFFER_SIZE
            if fkind == "r":
                raw = _RawReader(self, q, self.files.get(q, b""), self._find_fault(("eio_read",), q))
                buf = io.BufferedReader(raw, buffer_size=bs)
                return buf if binary else io.TextIOWrapper(buf, encoding=encoding or "utf-8", errors=errors, newline=newline)
            raw = _RawWriter(self, q, self._find_fault(("enospc", "eio_write"), q), self._find_fault(("eio_close",), q),
                             append=(fkind == "a"))
            self.open_writers[q] = raw
            buf = io.BufferedWriter(raw, buffer_size=bs)
            if binary:
                return buf
            t = io.TextIOWrapper(buf, encoding=encoding or "utf-8", errors=errors, newline=newline)
            cs = self.knobs.get("chunk")
            if cs:
                t._CHUNK_SIZE = cs
            return _RecWriter(self, q, t)
        q = self._norm(file)
        if "+" in mode:
            raise SimUnsupported("open(%r, %r)" % (file, mode))
        if opener is not None:
            # the opener returns a descriptor (tempfile: from os.open on a fresh name below `file`); go on from it
            k0 = [c for c in mode if c in "rwxa"][0]
            flags = {"r": os.O_RDONLY, "w": os.O_WRONLY | os.O_CREAT | os.O_TRUNC, "x": os.O_WRONLY | os.O_CREAT | os.O_EXCL,
                     "a": os.O_WRONLY | os.O_CREAT | os.O_APPEND}[k0] | getattr(os, "O_CLOEXEC", 0)
            fd = opener(file, flags)
            if fd not in self.fds:
                raise SimUnsupported("open(%r, %r, opener=...) returned a descriptor outside the simulated disk" % (file, mode))
            return self.p_open(fd, mode, buffering, encoding, errors, newline)
        kind = [c for c in mode if c in "rwxa"]
        if len(kind) != 1:
            raise ValueError("invalid mode: %r" % mode)
        kind = kind[0]
        self._syscall("open", q, extra=kind, mut=(kind != "r"))
        f = self._find_fault(("vanish", "eacces"), q, mode=("r" if kind == "r" else "w"))
        if f is not None:
            nth = f.get("nth", 1)
            f["seen"] = f.get("seen", 0) + 1
            if f["seen"] == nth:
                self._fire(f)
                if f["kind"] == "vanish":
                    if not self.dead:
                        self.files.pop(q, None)
                    self._err(errno.ENOENT, q)
                self._err(errno.EACCES, q)
        if q in self.dirs:
            self._err(errno.EISDIR, q)
        self._check_parents(q)
        bs = self.knobs.get("bufsize") or io.DEFAULT_BUFFER_SIZE
        if buffering is not None and buffering > 1:
            bs = buffering
        if kind == "r":
            if q not in self.files:
                self._err(errno.ENOENT, q)
            raw = _RawReader(self, q, self.files[q], self._find_fault(("eio_read",), q))
            if binary:
                return io.BufferedReader(raw, buffer_size=bs)
            t = io.TextIOWrapper(io.BufferedReader(raw, buffer_size=bs), encoding=encoding or "utf-8",
                                 errors=errors, newline=newline)
            t.mode = mode
            cs = self.knobs.get("chunk")
            if cs:
                t._CHUNK_SIZE = cs
            return t
        if kind == "x" and q in self.files:
            self._err(errno.EEXIST, q)
        if not self.dead:
            if kind in "wx" or q not in self.files:
                self.files[q] = bytearray()
        raw = _RawWriter(self, q, self._find_fault(("enospc", "eio_write"), q), self._find_fault(("eio_close",), q),
                         append=(kind == "a"))
        self.open_writers[q] = raw
        if binary:
            return io.BufferedWriter(raw, buffer_size=bs)
        t = io.TextIOWrapper(io.BufferedWriter(raw, buffer_size=bs), encoding=encoding or "utf-8",
                             errors=errors, newline=newline)
        t.mode = mode
        cs = self.knobs.get("chunk")
        if cs:
            t._CHUNK_SIZE = cs
        return _RecWriter(self, q, t)

    # ---- installation ------------------------------------------------------
    def install(self):
        assert self._installed is None
        # shutil remembers process-wide that sendfile failed once: pin the flag, or the first copy of a process would
        # make one more call than later ones
        import shutil
        self._saved_sendfile_flag = getattr(shutil, "_USE_CP_SENDFILE", False)
        shutil._USE_CP_SENDFILE = False
        saved = {}
        fs = self

        def route(name, sim):
            real = getattr(os, name, None)
            if real is None:
                return
            saved[name] = real

            def wrapper(path, *a, **k):
                if fs._mine(path) or (name in ("rename", "replace", "link", "symlink") and a and fs._mine(a[0])):
                    if sim is None:
                        raise SimUnsupported("os.%s(%r)" % (name, path))
                    return sim(path, *a, **k)
                return real(path, *a, **k)

            wrapper.__name__ = name
            setattr(os, name, wrapper)

        import functools
        sims = {"chmod": functools.partial(self.p_noop, "chmod"), "utime": functools.partial(self.p_noop, "utime"),
                "chown": functools.partial(self.p_noop, "chown"),
                "stat": self.p_stat, "lstat": self.p_stat, "scandir": self.p_scandir,
                "listdir": self.p_listdir, "mkdir": self.p_mkdir, "rmdir": self.p_rmdir,
                "unlink": self.p_unlink, "remove": self.p_unlink, "rename": self.p_rename,
                "replace": self.p_rename, "listxattr": (lambda path=None, **k: [])}
        for name in _PRIMS:
            if name == "open":
                continue
            route(name, sims.get(name))
        real_os_open = os.open
        saved["open"] = real_os_open

        def os_open(path, *a, **k):
            if fs._mine(path):
                return fs.p_os_open(path, *a, **k)
            return real_os_open(path, *a, **k)

        os.open = os_open
        real_os_close = os.close
        saved["close"] = real_os_close

        def os_close(fd):
            if fd in fs.fds:
                return fs.p_fd_close(fd)
            return real_os_close(fd)

        os.close = os_close
        real_os_write, real_os_read = os.write, os.read
        saved["write"], saved["read"] = real_os_write, real_os_read

        def os_write(fd, data):
            if fd in fs.fds:
                return fs.p_fd_write(fd, data)
            return real_os_write(fd, data)

        def os_read(fd, n):
            if fd in fs.fds:
                return fs.p_fd_read(fd, n)
            return real_os_read(fd, n)

        os.write, os.read = os_write, os_read
        if hasattr(os, "sendfile"):
            real_sendfile = os.sendfile
            saved["sendfile"] = real_sendfile

            def sendfile(out_fd, in_fd, *a, **k):
                if out_fd in fs.fake_fds or in_fd in fs.fake_fds or out_fd in fs.fds or in_fd in fs.fds:
                    raise OSError(errno.ENOTSOCK, "sendfile is not available for simulated files")
                return real_sendfile(out_fd, in_fd, *a, **k)

            os.sendfile = sendfile
        for name in ("fsync", "fdatasync", "fstat", "ftruncate", "fchmod"):
            real = getattr(os, name, None)
            if real is None:
                continue
            saved[name] = real

            def fdwrap(fd, *a, _real=real, _name=name, **k):
                if isinstance(fd, int) and (fd in fs.fake_fds or fd in fs.fds):
                    return fs.p_fd_op(_name, fd, *a)
                return _real(fd, *a, **k)

            setattr(os, name, fdwrap)
        real_open = builtins.open
        real_io_open = io.open

        def sim_open(file, *a, **k):
            if fs._mine(file) or (isinstance(file, int) and not isinstance(file, bool) and file in fs.fds):
                return fs.p_open(file, *a, **k)
            return real_open(file, *a, **k)

        builtins.open = sim_open
        io.open = sim_open
        self._installed = (saved, real_open, real_io_open)

    def uninstall(self):
        import shutil
        shutil._USE_CP_SENDFILE = self._saved_sendfile_flag
        saved, real_open, real_io_open = self._installed
        for name, real in saved.items():
            setattr(os, name, real)
        builtins.open = real_open
        io.open = real_io_open
        self._installed = None

    def __enter__(self):
        self.install()
        return self

    def __exit__(self, *a):
        self.uninstall()
