"""Family `fsx`: several executions over one tree, compared with each other.

mode "hist" (C03-B): the same tree anonymized together / file by file in separate processes /
    split into sub-trees / under another listing order / with undo requests interleaved on the live
    anonymizers / with files failing in the middle / crashed and re-run.  Salt-keyed features only
    (no passwords), so every completed file must be byte-identical in all executions.
mode "undo" (C02-B): P1 anonymizes (IP only), finishes or is crashed at a chosen syscall; P2, a
    new process with other seam draws, undoes with the same salt and options on what P1 left.
"""
import copy
import ipaddress
import posixpath
import random

from . import core
from . import gen_common as GC
from . import grammar as G
from . import world as W
from .fam_fs import extract

NAME = "fsx"


def generate(seed, tier="quick", mode=None, **kw):
    r = random.Random(seed)
    mode = mode or r.choice(["hist", "undo"])
    if mode == "undo":
        feats = ["ip"]
    else:
        feats = ["ip"] + [f for f in ("words", "as") if r.random() < 0.4]
        if r.random() < 0.12:
            feats.remove("ip")
            if not feats:
                feats = ["words"]
    o = GC.gen_opts(r, features=feats, cli_safe=True)
    if "words" in feats:
        GC.add_words(r, o)
    ctx = GC.make_ctx(r, o)
    nfiles = r.randint(1, 6) if mode == "undo" else r.randint(2, 6)
    paths, dirs, hidden = GC.gen_tree(r, nfiles, hidden=False, dirs=True)
    files = []
    for p in paths:
        lines = []
        for _ in range(r.randint(1, 12)):
            c = r.random()
            if c < 0.08 and o["ip"] and ctx["a4"]:
                # the IPv4-mapped IPv6 form (hex spelling) of an address that also occurs as IPv4 elsewhere in the tree
                v = r.choice(ctx["a4"])
                v6 = (0xFFFF << 32) | v
                lines.append({"segs": [["lit", "ipv6 route "], ["a6", "::ffff:%x:%x" % (v >> 16, v & 0xFFFF), {"v": v6}],
                                       ["lit", " via "], ["a4", G.tok4(r, v, zeros=False), {"v": v}]], "eol": "\n"})
            elif c < 0.16 and o["ip"]:
                lines.append(GC.directed_line(r))
            elif c < 0.19 and mode == "hist" and o["ip"]:
                # an IPv6 token with a dotted-quad tail: both address passes touch it (how it is tokenised is C06's subject;
                # here it only has to come out the same in every execution)
                tok = r.choice(["64:ff9b::", "::ffff:", "2001:db8::", "2001:db8:a:b::"]) + "%d.%d.%d.%d" % (
                    r.choice([23, 100, 198, 203]), r.randint(0, 255), r.randint(0, 255), r.randint(1, 254))
                lines.append({"segs": [["lit", "ipv6 route "], ["x6", tok], ["lit", " null0"]], "eol": "\n"})
            elif c < 0.25:
                lines.append(G.lit_line(r.choice(G.BENIGN)))
            elif c < 0.60:
                lines.append(G.expand(r, r.choice(G.LINES_A4), ctx))
            elif c < 0.80:
                lines.append(G.expand(r, r.choice(G.LINES_A6), ctx))
            elif c < 0.90 and ctx["words"]:
                lines.append(G.expand(r, r.choice(G.LINES_W), ctx))
            else:
                lines.append(G.expand(r, r.choice(G.LINES_AS), ctx))
        if r.random() < 0.2 and lines:
            lines[-1]["eol"] = ""
        if o["ip"] and r.random() < 0.04:
            lines.insert(r.randint(0, max(0, len(lines) - 1)), GC.boundary_line(r, ctx))
        files.append({"path": p, "lines": lines})
    plan = {"family": NAME, "seed": seed, "mode": mode, "files": files, "dirs": dirs, "opts": o,
            "knobs": [GC.gen_knobs(r) for _ in range(4)],
            "entry": r.choice(["cli", "cli", "files", "file", "io"] if mode == "undo" else ["cli", "cli", "files"])}
    if mode == "hist":
        # the hash-seed dimension belongs to C13/C10: hold the set order fixed across the compared executions
        for k in plan["knobs"]:
            k["set_key"] = plan["knobs"][0]["set_key"]
    if mode == "undo":
        # a few undo runs execute in a real child interpreter under another PYTHONHASHSEED (the forward run stays in-process)
        plan["child_undo_hashseed"] = r.randint(1, 4_000_000_000) if r.random() < 0.05 else None
        plan["crash_at"] = r.randint(5, 40 + 25 * nfiles) if r.random() < 0.35 else None
        plan["entry2"] = r.choice(["cli", "cli", "files", "file", "io"])
        if plan["crash_at"] and plan["entry"] == "io":
            plan["entry"] = "files"
    else:
        variants = r.sample(["perfile", "split", "listing", "between", "failing", "crash_rerun", "dump", "pre_undo", "sibling"], r.randint(2, 3))
        plan["variants"] = variants
        plan["perfile_order"] = r.sample(paths, len(paths))
        plan["perfile_entries"] = [r.choice(["cli", "files", "file"]) for _ in paths]
        k = r.randint(2, 3)
        plan["split"] = [r.randrange(k) for _ in paths]
        plan["between"] = []
        for _ in range(r.randint(1, 4)):
            v6 = r.random() < 0.3
            tok = G.tok6(r, r.choice(ctx["a6"])) if v6 else G.tok4(r, r.choice(ctx["a4"]), zeros=False)
            plan["between"].append({"before": r.randint(0, len(paths)), "line": "probe %s end\n" % tok, "undo": r.random() < 0.7, "v6": v6})
        victim = r.choice(paths)
        plan["failing"] = {"victim": victim, "kind": r.choice(["undecodable", "out_is_dir", "enospc", "eio_read"]),
                           "at": r.randint(0, 200)}
        plan["crash_at"] = r.randint(5, 40 + 25 * nfiles)
    return plan


def _disk(plan, world="a"):
    return {"dirs": list(plan["dirs"]), "files": {f["path"]: G.render_file(f["lines"], world, {}) for f in plan["files"]}}


def _step(plan, entry, inp, out, opts=None, dump=None, **extra):
    s = {"entry": entry, "opts": opts or plan["opts"], "in": inp, "out": out, "dump": dump}
    s.update(extra)
    return s


def _closed_outputs(h, prefix):
    """Output paths (under prefix) that were opened for writing and closed, and not reported as failed."""
    opened, closed = [], set()
    for seq, op, path, extra in h["trace"]:
        q = posixpath.normpath(path)
        if op == "open" and extra in ("w", "x", "a") and q.startswith(prefix + "/"):
            opened.append(q)
        elif op == "close" and q in opened:
            closed.add(q)
    return closed


def _reported(h, rel):
    for lv, msg, tb in h["logs"]:
        if lv == "ERROR" and ("/simfs/" + rel) in W.norm_paths(msg):
            return True
    # the single-file and stream entry points report to their caller by raising (a file torn inside a multi-byte
    # character by the crash of the forward run cannot be decoded by any entry point)
    return any(rel in (st.get("failed_files") or {}) for st in h.get("steps", []))


def check(plan):
    plan = dict(plan, files=GC.resolve_directed(plan["files"], plan["opts"], plan["knobs"][0]))
    if plan["mode"] == "undo":
        return _check_undo(plan)
    return _check_hist(plan)


# ---------------------------------------------------------------------------
# C03-B
# ---------------------------------------------------------------------------
def _check_hist(plan):
    V = []
    probes = {"v_" + v: 1 for v in plan["variants"]}
    probes.update({"files_compared": 0, "crash_rerun_prefix_files": 0, "between_requests": 0})
    o = plan["opts"]
    paths = [f["path"] for f in plan["files"]]
    steps = 0
    digest_items = []
    faults = {}
    # (1) reference: whole directory, one process
    ref_world = {"disk": _disk(plan), "procs": [{"knobs": plan["knobs"][0], "faults": [],
                                                  "steps": [_step(plan, plan["entry"], "in", "out")]}]}
    R = W.run_world(ref_world)
    rh = R["procs"][0]
    steps += rh["nsys"]
    ref = {p: rh["snap"]["files"].get(W.mirror("in", "out", p)) for p in paths}
    digest_items.append(W.public_hist(rh))
    if rh["outcome"] != "ok" or rh["steps"][0]["outcome"] != "ok" or any(v is None for v in ref.values()):
        # organic failure in the reference run: nothing to compare against (counted, C14's subject)
        return _result(plan, V, probes, steps, digest_items, faults, organic=1, nontrivial=False)

    def compare(label, got, which):
        for p in which:
            probes["files_compared"] += 1
            if got.get(p) != ref[p]:
                V.append({"prop": "C03", "tag": "file-differs:" + label,
                          "detail": "%s: output of %r differs from the whole-directory run: %r vs %r" % (
                              label, p, _around(got.get(p), ref[p]), _around(ref[p], got.get(p)))})
                return

    for v in plan["variants"]:
        if v == "perfile":
            # one process per file, mixed entry points, in the plan's order
            procs = []
            for n, p in enumerate(plan["perfile_order"]):
                if p not in paths:
                    continue
                entry = plan["perfile_entries"][paths.index(p) % len(plan["perfile_entries"])]
                procs.append({"knobs": plan["knobs"][1 + n % 3], "faults": [],
                              "steps": [_step(plan, entry, p, W.mirror("in", "out2", p))]})
            disk = _disk(plan)
            disk["dirs"] += sorted({posixpath.dirname(W.mirror("in", "out2", p)) for p in paths})
            X = W.run_world({"disk": disk, "procs": procs})
            steps += sum(h["nsys"] for h in X["procs"])
            digest_items.append([W.public_hist(h) for h in X["procs"]])
            got = {p: X["final"]["files"].get(W.mirror("in", "out2", p)) for p in paths}
            compare("one process per file", got, paths)
        elif v == "split":
            groups = {}
            for p, g in zip(paths, plan["split"]):
                groups.setdefault(g, []).append(p)
            disk = {"dirs": [], "files": {}}
            rendered = _disk(plan)["files"]
            procs = []
            for g, ps in sorted(groups.items()):
                for p in ps:
                    disk["files"]["part%d/%s" % (g, p)] = rendered[p]
                procs.append({"knobs": plan["knobs"][1 + g % 3], "faults": [],
                              "steps": [_step(plan, plan["entry"], "part%d/in" % g, "part%d/out" % g)]})
            X = W.run_world({"disk": disk, "procs": procs})
            steps += sum(h["nsys"] for h in X["procs"])
            digest_items.append([W.public_hist(h) for h in X["procs"]])
            got = {}
            for g, ps in groups.items():
                for p in ps:
                    got[p] = X["final"]["files"].get("part%d/%s" % (g, W.mirror("in", "out", p)))
            compare("tree split into %d runs" % len(groups), got, paths)
        elif v == "listing":
            X = W.run_world({"disk": _disk(plan), "procs": [{"knobs": plan["knobs"][2], "faults": [],
                                                               "steps": [_step(plan, plan["entry"], "in", "out")]}]})
            steps += X["procs"][0]["nsys"]
            digest_items.append(W.public_hist(X["procs"][0]))
            got = {p: X["final"]["files"].get(W.mirror("in", "out", p)) for p in paths}
            compare("other listing order / seam draws", got, paths)
        elif v == "between":
            probes["between_requests"] += len(plan["between"])
            X = W.run_world({"disk": _disk(plan), "procs": [{"knobs": plan["knobs"][1], "faults": [], "steps": [
                _step(plan, "file", "in", "out", between=plan["between"])]}]})
            steps += X["procs"][0]["nsys"]
            digest_items.append(W.public_hist(X["procs"][0]))
            got = {p: X["final"]["files"].get(W.mirror("in", "out", p)) for p in paths}
            compare("undo/forward requests interleaved on the live anonymizers", got, paths)
        elif v == "failing":
            fl = plan["failing"]
            if fl["victim"] not in paths:
                continue
            p2 = copy.deepcopy(plan)
            disk = None
            sysf = []
            mp = W.mirror("in", "out", fl["victim"])
            if fl["kind"] == "undecodable":
                for f in p2["files"]:
                    if f["path"] == fl["victim"]:
                        f["lines"].insert(min(len(f["lines"]), fl["at"] % (len(f["lines"]) + 1)),
                                          {"segs": [["bad", "\xff\xfe"]], "eol": "\n"})
                disk = _disk(p2)
            else:
                disk = _disk(p2)
                if fl["kind"] == "out_is_dir":
                    disk["dirs"].append(mp)
                elif fl["kind"] == "enospc":
                    sysf.append({"kind": "enospc", "path": mp, "at": fl["at"]})
                elif fl["kind"] == "eio_read":
                    sysf.append({"kind": "eio_read", "path": fl["victim"], "at": fl["at"]})
            X = W.run_world({"disk": disk, "procs": [{"knobs": plan["knobs"][1], "faults": sysf,
                                                        "steps": [_step(plan, plan["entry"], "in", "out",
                                                                        dump=("map" if o["ip"] and fl["at"] % 2 else None))]}]})
            h = X["procs"][0]
            steps += h["nsys"]
            digest_items.append(W.public_hist(h))
            for f in h["faults"]:
                if f.get("fired"):
                    faults[f["kind"]] = faults.get(f["kind"], 0) + 1
            if fl["kind"] in ("undecodable", "out_is_dir"):
                faults[fl["kind"]] = faults.get(fl["kind"], 0) + 1
            others = [p for p in paths if p != fl["victim"] and not _reported(h, p)]
            got = {p: X["final"]["files"].get(W.mirror("in", "out", p)) for p in paths}
            compare("a file failing in the middle (%s)" % fl["kind"], got, others)
        elif v == "crash_rerun":
            X = W.run_world({"disk": _disk(plan), "procs": [
                {"knobs": plan["knobs"][1], "faults": [{"kind": "crash", "at": plan["crash_at"]}],
                 "steps": [_step(plan, plan["entry"], "in", "out")]}]})
            h = X["procs"][0]
            steps += h["nsys"]
            digest_items.append(W.public_hist(h))
            if h["outcome"] == "crash":
                faults["crash"] = faults.get("crash", 0) + 1
                closed = _closed_outputs(h, "out")
                done = [p for p in paths if W.mirror("in", "out", p) in closed]
                probes["crash_rerun_prefix_files"] += len(done)
                got = {p: h["snap"]["files"].get(W.mirror("in", "out", p)) for p in paths}
                compare("files completed before a crash vs. the re-run", got, done)
        elif v == "pre_undo" and o["ip"]:
            # library use: the same process first ran an undo over this tree (other output), then the forward run
            o_undo = dict(o, ip=False, undo=True, words=None)
            o_undo["as"] = None
            X = W.run_world({"disk": _disk(plan), "procs": [{"knobs": plan["knobs"][2], "faults": [], "steps": [
                _step(plan, "files", "in", "tmp-undo", opts=o_undo), _step(plan, plan["entry"], "in", "out")]}]})
            h = X["procs"][0]
            steps += h["nsys"]
            digest_items.append(W.public_hist(h))
            got = {p: X["final"]["files"].get(W.mirror("in", "out", p)) for p in paths}
            compare("an undo run over the same tree earlier in the same process", got, paths)
        elif v == "sibling" and o["ip"]:
            # library use: other FileAnonymizers are alive in the process and have already seen this very text - same salt
            # and lists but another number of host bits, then the same options under another salt
            text = b"".join(_disk(plan)["files"][p] for p in paths).decode("utf-8", "replace")
            hb = 8 if o["hb"] is None else o["hb"]
            pre = [{"kind": "lines", "opts": dict(o, hb=(0 if hb else 8), words=None), "text": text},
                   {"kind": "lines", "opts": dict(o, hb=(hb + 5) % 33, words=None), "text": text[: len(text) // 2]},
                   {"kind": "lines", "opts": dict(o, salt=(o["salt"] or "") + "x", words=None), "text": text}]
            for it in pre:
                it["opts"]["as"] = None
            X = W.run_world({"disk": _disk(plan), "procs": [{"knobs": plan["knobs"][2], "faults": [], "pre": pre,
                                                               "steps": [_step(plan, plan["entry"], "in", "out")]}]})
            steps += X["procs"][0]["nsys"]
            digest_items.append(W.public_hist(X["procs"][0]))
            got = {p: X["final"]["files"].get(W.mirror("in", "out", p)) for p in paths}
            compare("sibling anonymizers (other host-bit counts, another salt) alive in the same process", got, paths)
        elif v == "dump" and o["ip"]:
            dk = _disk(plan)
            if plan["seed"] % 2:
                # the map path already holds a well-formed map of these very addresses, left by a run under another salt
                dk["files"]["map"] = GC.stale_map(plan["files"], plan["seed"] & 0xFFFFF, plan["seed"] % 3).encode()
            X = W.run_world({"disk": dk, "procs": [{"knobs": plan["knobs"][3], "faults": [],
                                                               "steps": [_step(plan, plan["entry"], "in", "out", dump="map")]}]})
            steps += X["procs"][0]["nsys"]
            digest_items.append(W.public_hist(X["procs"][0]))
            got = {p: X["final"]["files"].get(W.mirror("in", "out", p)) for p in paths}
            compare("run with --dump-ip-map", got, paths)
    return _result(plan, V, probes, steps, digest_items, faults, organic=0, nontrivial=len(paths) >= 2)


def _around(a, b):
    if a is None:
        return None
    if b is None:
        return a[:60]
    n = 0
    while n < min(len(a), len(b)) and a[n] == b[n]:
        n += 1
    return a[max(0, n - 25):n + 35]


def _result(plan, V, probes, steps, digest_items, faults, organic, nontrivial):
    seen, out = set(), []
    for v in V:
        k = (v["prop"], v["tag"])
        if k not in seen:
            seen.add(k)
            out.append(v)
    o = plan["opts"]
    sig = core.digest([plan["mode"], plan.get("variants"), len(plan["files"]), sorted(k for k, v in o.items() if v),
                       sorted(faults), plan.get("crash_at") is not None, sorted(probes.items())])
    prop = "C03" if plan["mode"] == "hist" else "C02"
    return {"violations": out, "digest": core.digest(digest_items), "sig": sig, "nontrivial": {prop: bool(nontrivial)},
            "faults": faults, "probes": probes, "steps": steps, "organic_failures": organic,
            "sample": {"mode": plan["mode"], "variants": plan.get("variants"), "entry": plan["entry"],
                       "opts": {k: v for k, v in o.items() if v not in (None, False)},
                       "files": {f["path"]: len(f["lines"]) for f in plan["files"]}, "crash_at": plan.get("crash_at")}}


# ---------------------------------------------------------------------------
# C02-B
# ---------------------------------------------------------------------------
def _canon_tok(seg):
    txt = seg[1]
    suffix = ""
    if "/" in txt:
        suffix = "/" + txt.split("/", 1)[1]
    if seg[0] == "a4":
        return str(ipaddress.IPv4Address(seg[2]["v"])) + suffix
    return str(ipaddress.IPv6Address(seg[2]["v"])) + suffix


def _check_undo(plan):
    V = []
    probes = {"lines_checked": 0, "mask_shaped_images": 0, "p1_crashed": 0, "torn_files": 0, "files_undone": 0,
              "p2_rejected": 0, "tokens_restored": 0}
    o = plan["opts"]
    paths = [f["path"] for f in plan["files"]]
    faults = {}
    f1 = [{"kind": "crash", "at": plan["crash_at"]}] if plan.get("crash_at") else []
    o2 = dict(o, ip=False, undo=True)
    world = {"disk": _disk(plan), "procs": [
        {"knobs": plan["knobs"][0], "faults": f1, "steps": [_step(plan, plan["entry"], "in", "anon")]},
        {"knobs": plan["knobs"][1], "faults": [], "steps": [_step(plan, plan["entry2"], "anon", "undone", opts=o2)]}]}
    if plan.get("child_undo_hashseed"):
        H1 = W.run_world({"disk": world["disk"], "procs": world["procs"][:1]})
        p2 = dict(world["procs"][1], knobs=dict(world["procs"][1]["knobs"], real_set_order=True))
        H2 = core.run_child_world({"disk": H1["final"], "procs": [p2]}, plan["child_undo_hashseed"])
        H2["procs"][0]["nsys"] = len(H2["procs"][0]["trace"])
        H = {"procs": [H1["procs"][0], H2["procs"][0]], "final": H2["final"]}
        probes["undo_in_child_interpreter"] = 1
    else:
        H = W.run_world(world)
    h1, h2 = H["procs"]
    steps = h1["nsys"] + h2["nsys"]
    digest_items = [W.public_hist(h1), W.public_hist(h2)]
    crashed = h1["outcome"] == "crash"
    if crashed:
        probes["p1_crashed"] = 1
        faults["crash"] = 1
    s2 = h2["steps"][0]["outcome"] if h2["steps"] else "none"
    if s2 != "ok":
        probes["p2_rejected"] = 1
        if not crashed and h1["steps"][0]["outcome"] == "ok":
            V.append({"prop": "C02", "tag": "undo-run-failed", "detail": "undo run ended with %s" % s2})
        return _result(plan, V, probes, steps, digest_items, faults, 0, False)
    closed = _closed_outputs(h1, "anon")
    files = {f["path"]: f for f in plan["files"]}
    organic = 0
    for p in paths:
        a_path = W.mirror("in", "anon", p)
        u_path = W.mirror("in", "undone", p)
        adata = h1["snap"]["files"].get(a_path)
        udata = H["final"]["files"].get(u_path)
        if adata is None:
            continue
        if _reported(h1, p) or _reported(h2, a_path):
            organic += 1
            continue
        if udata is None:
            V.append({"prop": "C02", "tag": "undo-output-missing", "detail": "no undo output for %r" % a_path})
            continue
        try:
            alines = adata.decode("utf-8").split("\n")
            ulines = udata.decode("utf-8").split("\n")
        except UnicodeDecodeError:
            continue
        torn = a_path not in closed
        if torn:
            probes["torn_files"] += 1
        else:
            probes["files_undone"] += 1
        ncomplete = len(alines) - 1           # lines terminated by \n in P1's durable output
        gl = files[p]["lines"]
        for n, ln in enumerate(gl):
            last_unterminated = (n == len(gl) - 1 and ln.get("eol", "\n") == "")
            if n >= ncomplete and not (last_unterminated and not torn and n < len(alines)):
                break
            if n >= len(ulines):
                V.append({"prop": "C02", "tag": "undo-line-missing", "detail": "%r: undo output has no line %d" % (u_path, n)})
                break
            toks = extract(ln, alines[n], {}, False)
            if toks is None:
                V.append({"prop": "C02", "tag": "forward-context-changed",
                          "detail": "%r line %d: IP-only anonymization changed the context: %r -> %r" % (
                              p, n, G.render_line(ln)[:100], alines[n][:100])})
                break
            img = {id(seg): tok for seg, tok in toks}
            exp = ""
            for seg in ln["segs"]:
                if seg[0] in ("a4", "a6"):
                    it = img[id(seg)]
                    mask = False
                    if seg[0] == "a4":
                        try:
                            mask = G.is_mask4(int(ipaddress.IPv4Address(it.split("/")[0])))
                        except ValueError:
                            mask = False
                    if mask:
                        probes["mask_shaped_images"] += 1
                        exp += it                      # deliberately left alone in both directions
                    else:
                        exp += _canon_tok(seg)
                        probes["tokens_restored"] += 1
                else:
                    exp += seg[1]
            probes["lines_checked"] += 1
            if ulines[n] != exp:
                V.append({"prop": "C02", "tag": "undo-differs",
                          "detail": "%r line %d (%s%s): input %r, anonymized %r, undone %r, expected %r" % (
                              p, n, "torn file, " if torn else "", "P1 crashed" if crashed else "P1 finished",
                              G.render_line(ln).rstrip("\n")[:120], alines[n][:120], ulines[n][:120], exp[:120])})
                break
    return _result(plan, V, probes, steps, digest_items, faults, organic, True)


# ---------------------------------------------------------------------------
# shrinking
# ---------------------------------------------------------------------------
def shrink_candidates(plan):
    if plan["mode"] == "hist":
        for kept in core.drop_chunks(plan["variants"], 1):
            p = copy.deepcopy(plan)
            p["variants"] = list(kept)
            yield p
        for kept in core.drop_chunks(plan["between"], 0):
            p = copy.deepcopy(plan)
            p["between"] = copy.deepcopy(kept)
            yield p
    elif plan.get("crash_at"):
        p = copy.deepcopy(plan)
        p["crash_at"] = None
        yield p
    if len(plan["files"]) > 1:
        for kept in core.drop_chunks(plan["files"], 1):
            p = copy.deepcopy(plan)
            p["files"] = copy.deepcopy(kept)
            if plan["mode"] == "hist":
                keep_paths = [f["path"] for f in kept]
                idx = [i for i, f in enumerate(plan["files"]) if f["path"] in keep_paths]
                p["split"] = [plan["split"][i] for i in idx]
                p["perfile_entries"] = [plan["perfile_entries"][i] for i in idx]
                p["perfile_order"] = [q for q in plan["perfile_order"] if q in keep_paths]
            yield p
    for i, f in enumerate(plan["files"]):
        for kept in core.drop_chunks(f["lines"], 1):
            p = copy.deepcopy(plan)
            p["files"][i]["lines"] = copy.deepcopy(kept)
            yield p
    o = plan["opts"]
    for key, simple in (("words", None), ("as", None), ("pp", None), ("pa", None), ("private", False), ("hb", None), ("salt", "s")):
        if o.get(key) != simple:
            p = copy.deepcopy(plan)
            p["opts"][key] = simple
            yield p
    for i in range(len(plan["knobs"])):
        for key in ("bufsize", "chunk", "max_read", "max_write", "listing_key"):
            if plan["knobs"][i].get(key) is not None:
                p = copy.deepcopy(plan)
                p["knobs"][i][key] = None
                yield p
    for key in ("entry", "entry2"):
        if plan.get(key) not in (None, "files"):
            p = copy.deepcopy(plan)
            p[key] = "files"
            yield p
