"""Self-tests of the simulator: determinism, storage-stub fidelity, sensitivity (mutants), grammar."""
import json
import os
import posixpath
import shutil
import subprocess
import sys
import tempfile
import time

from . import core

FAMILIES = ["ipm", "fs"]


def _families():
    out = []
    for f in FAMILIES + ["fsx", "pwd", "lay", "det"]:
        try:
            core.family(f)
            if f not in out:
                out.append(f)
        except ImportError:
            pass
    return out


def digests_here(fam_name, seeds, tier="quick"):
    fam = core.family(fam_name)
    out = {}
    for s in seeds:
        plan = fam.generate(s, tier)
        r = fam.check(plan)
        out[str(s)] = [core.digest(plan), r["digest"], r["sig"], sorted((v["prop"], v["tag"]) for v in r["violations"])]
    return out


def _child(fam_name, seeds, hashseed, workers):
    env = dict(os.environ, PYTHONHASHSEED=str(hashseed), PYTHONDONTWRITEBYTECODE="1", VERIF_NO_REEXEC="1")
    cmd = [core.PY, os.path.join(core.VERIF, "check"), "selftest-digests", "--only", fam_name,
           "--n", str(len(seeds)), "--seed", str(seeds[0]), "--workers", str(workers)]
    p = subprocess.run(cmd, env=env, capture_output=True, text=True, timeout=3600)
    lines = [l for l in p.stdout.splitlines() if l.startswith("DIGESTS ")]
    if not lines:
        raise core.HarnessError("digest child failed: %s\n%s" % (p.stdout[-2000:], p.stderr[-2000:]))
    return json.loads(lines[-1][len("DIGESTS "):])


def _digest_task(args):
    return digests_here(*args)


def cmd_digests(a):
    import concurrent.futures as cf
    import multiprocessing as mp
    n = a.n or 20
    first = a.seed or 0
    seeds = list(range(first, first + n))
    w = a.workers or 1
    if w <= 1:
        out = digests_here(a.only, seeds)
    else:
        out = {}
        chunks = [seeds[i::w] for i in range(w)]
        with cf.ProcessPoolExecutor(max_workers=w, mp_context=mp.get_context("fork")) as ex:
            for d in ex.map(_digest_task, [(a.only, c) for c in chunks if c]):
                out.update(d)
    print("DIGESTS " + json.dumps(out, sort_keys=True))
    return 0


def cmd_determinism(a):
    n = a.n or 40
    base = (a.seed or 0) * 1000 + 7
    seeds = list(range(base, base + n))
    fams = [a.only] if a.only else _families()
    bad = 0
    t0 = time.perf_counter()
    for f in fams:
        d1 = digests_here(f, seeds)
        d2 = digests_here(f, seeds)                        # twice in one process
        d3 = _child(f, seeds, hashseed=0, workers=1)       # fresh interpreter
        d4 = _child(f, seeds, hashseed=12345, workers=1)   # another hash seed
        d5 = _child(f, seeds, hashseed=777, workers=16)    # another worker count
        for name, d in (("same-process", d2), ("fresh/hashseed=0", d3), ("fresh/hashseed=12345", d4), ("16 workers", d5)):
            diff = [s for s in d1 if d1[s] != d.get(s)]
            if diff:
                bad += len(diff)
                print("NONDETERMINISM family=%s variant=%s seeds=%s e.g. %s vs %s" % (f, name, diff[:5], d1[diff[0]], d.get(diff[0])))
        print("determinism family=%s seeds=%d x5 executions: %s" % (f, n, "FAILED" if bad else "identical digests"), flush=True)
    print("selftest-determinism %s (%.1fs)" % ("FAILED" if bad else "ok", time.perf_counter() - t0))
    return 2 if bad else 0


# ---------------------------------------------------------------------------
# SimFS fidelity: the same fault-free worlds on SimFS and on the real file system
# ---------------------------------------------------------------------------
def _real_snapshot(root):
    dirs, files = [], {}
    for d, ds, fs_ in os.walk(root):
        rel = os.path.relpath(d, root)
        if rel != ".":
            dirs.append(rel)
        for f in fs_:
            p = os.path.normpath(os.path.join(rel, f))
            with open(os.path.join(d, f), "rb") as fh:
                files[p] = fh.read()
    return {"dirs": sorted(dirs), "files": files}


def cmd_simfs(a):
    from . import fam_fs
    from . import world as W
    from .proc import SimProcess
    n = a.n or 60
    base = (a.seed or 0) * 1000 + 11
    bad = 0
    done = 0
    s = base
    scratch = tempfile.mkdtemp(prefix="nc-simfs-")
    try:
        while done < n and s < base + n * 20:
            s += 1
            plan = fam_fs.generate(s, "quick")
            if plan["entry"] not in ("cli", "files"):
                continue
            plan["faults"] = [f for f in plan["faults"] if f["kind"] in ("undecodable", "out_is_dir", "out_parent_is_file")]
            plan["pre_same_run"] = False          # the real-file-system side runs the observed step only
            done += 1
            world = fam_fs.build_world(plan)
            root = os.path.join(scratch, "w%d" % s)
            os.makedirs(root)
            for d in world["disk"]["dirs"]:
                os.makedirs(os.path.join(root, d), exist_ok=True)
            for p, data in world["disk"]["files"].items():
                os.makedirs(os.path.dirname(os.path.join(root, p)), exist_ok=True)
                with open(os.path.join(root, p), "wb") as fh:
                    fh.write(data)
            # the real listing order becomes the simulated one
            order = {}
            for d, ds, fs_ in os.walk(root):
                order[os.path.normpath(os.path.relpath(d, root))] = os.listdir(d)
            step = world["procs"][0]["steps"][0]
            proc = SimProcess(plan["knobs"])
            outcome = "ok"
            with proc:
                try:
                    if step["entry"] == "cli":
                        old = sys.stderr
                        sys.stderr = open(os.devnull, "w")
                        try:
                            proc.nc.main(W.cli_argv(step["opts"], os.path.join(root, step["in"]) + step.get("in_suffix", ""),
                                                    os.path.join(root, step["out"]) + step.get("out_suffix", ""),
                                                    os.path.join(root, step["dump"]) if step["dump"] else None))
                        finally:
                            sys.stderr.close()
                            sys.stderr = old
                    else:
                        proc.af.anonymize_files(os.path.join(root, step["in"]) + step.get("in_suffix", ""),
                                                os.path.join(root, step["out"]) + step.get("out_suffix", ""),
                                                **W.api_kwargs(step["opts"], os.path.join(root, step["dump"]) if step["dump"] else None))
                except Exception as e:
                    outcome = "raised:%s" % type(e).__name__
            real = _real_snapshot(root)
            real_err = sorted(m.replace(root, "/simfs") for lv, m, tb in proc.log.records if lv == "ERROR")
            world["procs"][0]["knobs"] = dict(plan["knobs"], listing_explicit=order, listing_key=None)
            H = W.run_world(world)
            h = H["procs"][0]
            sim = h["snap"]
            sim_err = sorted(m for lv, m, tb in h["logs"] if lv == "ERROR")
            so = h["steps"][0]["outcome"].split(":")[:2]
            ok = (sorted(real["dirs"]) == sorted(sim["dirs"]) and real["files"] == sim["files"] and real_err == sim_err
                  and ":".join(so) == outcome)
            if not ok:
                bad += 1
                print("SIMFS-MISMATCH seed=%d outcome real=%s sim=%s" % (s, outcome, h["steps"][0]["outcome"]))
                for k in sorted(set(real["files"]) | set(sim["files"])):
                    if real["files"].get(k) != sim["files"].get(k):
                        print("   file %r real=%r sim=%r" % (k, (real["files"].get(k) or b"")[:80], (sim["files"].get(k) or b"")[:80]))
                print("   dirs real-sim=%s sim-real=%s" % (sorted(set(real["dirs"]) - set(sim["dirs"])), sorted(set(sim["dirs"]) - set(real["dirs"]))))
                print("   errors real=%s sim=%s" % (real_err, sim_err))
            shutil.rmtree(root)
        bad += _tmp_scenarios(scratch)
    finally:
        shutil.rmtree(scratch, ignore_errors=True)
    print("selftest-simfs: %d worlds on both file systems, %d mismatches" % (done, bad))
    return 2 if bad else 0


def _tmp_scenario(tmpdir, target, early):
    """Write through a named temporary file and move it into place (before or after it is closed)."""
    import tempfile as tf
    with tf.NamedTemporaryFile("w", prefix="nc-", suffix=".tmp", delete=False, dir=tmpdir) as t:
        t.write("0123456789abcde\n" * 1200)
        name = t.name
        if early:
            shutil.move(name, os.path.join(target, "moved.txt"))
    if not early:
        shutil.move(name, os.path.join(target, "moved.txt"))
    fd, p = tf.mkstemp(dir=tmpdir)
    os.write(fd, b"abc")
    os.close(fd)
    try:
        os.replace(p, os.path.join(target, "replaced.txt"))
        r = "ok"
    except OSError as e:
        r = errno_name(e)
        os.unlink(p)
    return r


def errno_name(e):
    import errno
    return errno.errorcode.get(e.errno, str(e.errno))


def _tmp_scenarios(scratch):
    """The simulated temporary directory against a real one: same file system, and (when this machine has /dev/shm on
    another device than the scratch area) another file system, where rename fails with EXDEV."""
    from .simfs import SimFS, SYSTMP
    bad = 0
    real_same = os.path.join(scratch, "tmp-same")
    os.makedirs(real_same)
    cases = [(real_same, True)]
    if os.path.isdir("/dev/shm") and os.stat("/dev/shm").st_dev != os.stat(scratch).st_dev:
        other = tempfile.mkdtemp(prefix="nc-simfs-", dir="/dev/shm")
        cases.append((other, False))
    try:
        for real_tmp, same in cases:
            for early in (False, True):
                target = os.path.join(scratch, "tgt-%s-%s" % (same, early))
                os.makedirs(target)
                r_real = _tmp_scenario(real_tmp, target, early)
                real = {f: open(os.path.join(target, f), "rb").read() for f in sorted(os.listdir(target))}
                left_real = sorted(os.listdir(real_tmp))
                fs = SimFS({"dirs": ["tgt"], "files": {}}, knobs={"tmp_same_fs": same})
                fs.new_process({"tmp_same_fs": same}, [])
                with fs:
                    r_sim = _tmp_scenario("/simfs/" + SYSTMP, "/simfs/tgt", early)
                sim = {posixpath.basename(k): v for k, v in fs.snapshot()["files"].items()}
                left_sim = sorted(posixpath.basename(q) for q in fs.files if fs._in_tmp(q))
                if r_real != r_sim or real != sim or len(left_real) != len(left_sim):
                    bad += 1
                    print("SIMFS-MISMATCH temporary-file scenario same_fs=%s early=%s: real %s %s left=%s, sim %s %s left=%s" % (
                        same, early, r_real, {k: len(v) for k, v in real.items()}, left_real, r_sim, {k: len(v) for k, v in sim.items()}, left_sim))
                for f in os.listdir(real_tmp):
                    os.unlink(os.path.join(real_tmp, f))
        print("selftest-simfs: temporary-file scenarios on %d real temporary directories (%s)" % (
            len(cases), ", ".join("same file system" if sm else "other file system" for _, sm in cases)))
    finally:
        for real_tmp, same in cases:
            shutil.rmtree(real_tmp, ignore_errors=True)
    return bad


# ---------------------------------------------------------------------------
# sensitivity: mutants must be reported, benign refactors must not
# ---------------------------------------------------------------------------
def cmd_sensitivity(a):
    cat_path = os.path.join(core.VERIF, "mutants", "catalogue.json")
    cat = json.load(open(cat_path))
    rows = []
    only = a.only.split(",") if a.only else None
    for m in cat:
        if only and m["id"] not in only:
            continue
        for prop in m["checks"]:
            d = tempfile.mkdtemp(prefix="nc-mut-")
            try:
                subprocess.run(["cp", "-r", "/repo/.", d], check=True)
                for extra in m.get("base", []):
                    subprocess.run(["git", "apply", os.path.join(core.VERIF, extra)], cwd=d, check=True)
                r = subprocess.run(["git", "apply", os.path.join(core.VERIF, m["patch"])], cwd=d)
                if r.returncode != 0:
                    rows.append((m["id"], prop, "PATCH-FAILED", 0))
                    continue
                env = dict(os.environ, VERIF_REPO=d, VERIF_EVIDENCE_DIR=os.path.join(d, ".evidence"))
                t0 = time.perf_counter()
                p = subprocess.run([core.PY, os.path.join(core.VERIF, "check"), prop, "--tier", "quick"] +
                                   (["--scale", str(a.scale)] if a.scale else []), env=env, capture_output=True, text=True,
                                   timeout=3600)
                dt = time.perf_counter() - t0
                tag = ""
                for l in p.stdout.splitlines():
                    if "first: family=" in l:
                        tag = l.strip().split("first: ")[1]
                want = 1 if m["expect"] == "violation" else 0
                verdict = "ok" if p.returncode == want else "UNEXPECTED(exit %d, wanted %d)" % (p.returncode, want)
                rows.append((m["id"], prop, verdict, dt, tag))
                print("%-5s %-4s %-30s %5.1fs %s" % (m["id"], prop, verdict, dt, tag), flush=True)
                if "UNEXPECTED" in verdict:
                    print(p.stdout[-1500:])
            finally:
                shutil.rmtree(d, ignore_errors=True)
    badn = sum(1 for r in rows if r[2] != "ok")
    print("selftest-sensitivity: %d runs, %d unexpected" % (len(rows), badn))
    return 2 if badn else 0


def cmd_seeded(a):
    """Every independent seeded change under /verif/seeded must be reported by its property's quick check."""
    base = os.path.join(core.VERIF, "seeded")
    rows = []
    only = a.only.split(",") if a.only else None
    for sid in sorted(os.listdir(base)):
        if only and sid not in only:
            continue
        meta = json.load(open(os.path.join(base, sid, "meta.json")))
        prop = meta["property"]
        d = tempfile.mkdtemp(prefix="nc-seed-")
        try:
            subprocess.run(["cp", "-r", "/repo/.", d], check=True)
            r = subprocess.run(["git", "apply", os.path.join(base, sid, "patch.diff")], cwd=d)
            if r.returncode != 0:
                rows.append((sid, prop, "PATCH-FAILED"))
                print("%-6s %-4s PATCH-FAILED" % (sid, prop))
                continue
            env = dict(os.environ, VERIF_REPO=d, VERIF_EVIDENCE_DIR=os.path.join(d, ".evidence"))
            t0 = time.perf_counter()
            p = subprocess.run([core.PY, os.path.join(core.VERIF, "check"), prop, "--tier", "quick"] +
                               (["--scale", str(a.scale)] if a.scale else []), env=env, capture_output=True, text=True, timeout=3600)
            tag = ""
            for l in p.stdout.splitlines():
                if "first: family=" in l:
                    tag = l.strip().split("first: ")[1]
            verdict = "ok" if p.returncode == 1 else "MISSED(exit %d)" % p.returncode
            if meta.get("expected") == "missed":
                verdict = "ok" if p.returncode in (0, 1, 2) else verdict
                tag = ("recorded as not caught (DESIGN 10.6); " + ("still not reported" if p.returncode == 0 else "NOW REPORTED: ")) + tag
            rows.append((sid, prop, verdict))
            print("%-6s %-4s %-14s %5.1fs %s" % (sid, prop, verdict, time.perf_counter() - t0, tag), flush=True)
        finally:
            shutil.rmtree(d, ignore_errors=True)
    bad = sum(1 for r in rows if r[2] != "ok")
    print("selftest-seeded: %d changes, %d not reported" % (len(rows), bad))
    return 2 if bad else 0


def main(a):
    if a.what == "selftest-seeded":
        return cmd_seeded(a)
    if a.what == "selftest-digests":
        return cmd_digests(a)
    if a.what == "selftest-determinism":
        return cmd_determinism(a)
    if a.what == "selftest-simfs":
        return cmd_simfs(a)
    if a.what == "selftest-sensitivity":
        return cmd_sensitivity(a)
    if a.what == "selftest-grammar":
        from . import grammar_check
        return grammar_check.main(a)
    print("unknown selftest %r" % a.what)
    return 2
