"""Family `det`: one scenario executed again with nondeterminism sources / leftover state changed.

mode "c13": (tree, options with explicit salt, listing order, entry point) is executed in P1 and
    again in P2 where a chosen set of dimensions differs -- entropy (SystemRandom/urandom), the
    `random` module's seed, the hash-set order, clock and pid, buffer sizes, and 0-4 earlier
    activities in the same process -- or P2 is a real child interpreter with another
    PYTHONHASHSEED.  Output tree and dump must be byte-identical.  A difference is attributed by
    re-running with one dimension at a time.  No-salt scenario: P1 reports its generated salt,
    P2 re-runs with it.
mode "c10": word lists with overlaps and reserved tokens, executed under several set orders and
    after unrelated earlier anonymizers in the same process.
"""
import copy
import itertools
import random
import re

from . import core
from . import gen_common as GC
from . import grammar as G
from . import world as W
from .fam_fs import extract

NAME = "det"

DIMS = ["entropy", "rand", "set_order", "clock_pid", "buffers", "prehistory", "environ", "list_order", "schedule", "stale_out",
        "host_threads"]
BUILTIN_RESERVED = ["router", "system", "permit", "interface", "domain-search", "esp-seal", "snmp", "trunk", "neighbor"]


def _pre_items(r, plan_words, secrets, n, plan_opts=None, addrs=()):
    items = []
    for _ in range(n):
        c = r.random()
        if r.random() < 0.1:
            # an earlier anonymizer whose salt starts outside the Juniper alphabet met $9$ secrets (today that request
            # fails inside the $9$ encoder; a host application carries on): whatever that path does to the codec's
            # module-level tables must not reach the observed run (seeded C13-t)
            items.append({"kind": "lines",
                          "opts": {"pwd": True, "ip": False, "salt": r.choice("_#!~@%+=") + "s%d" % r.randint(0, 99), "reserved": None,
                                   "words": None, "pp": None, "undo": False, "pa": None},
                          "text": "set system root-authentication encrypted-password \"%s\"\nsnmp-server community %s RO\n" % (
                              G.j9_encode("Pre%dhist" % r.randint(0, 999), r.choice(G.J9_ALPHA), r.choice("nQz7i")),
                              G.j9_encode("c%d" % r.randint(0, 99), r.choice(G.J9_ALPHA), "n"))})
            continue
        if plan_opts is not None and r.random() < 0.12 and plan_opts.get("salt") is not None:
            # the very same run was already done once in this process (repeated runs)
            items.append({"kind": "run", "step": {"entry": r.choice(["files", "file", "io", "cli"]), "opts": dict(plan_opts),
                                                  "in": "in", "out": "other/again%d" % len(items), "dump": None}, "bad": False})
            continue
        if plan_opts is not None and plan_opts.get("ip") and plan_opts.get("salt") is not None and r.random() < 0.15:
            # a live anonymizer with the very same options has already translated OTHER addresses (they are no part of this
            # run's input and must not show up in its map)
            items.append({"kind": "lines", "opts": dict(plan_opts, undo=False),
                          "text": " ip address 23.%d.%d.9 255.255.255.0\n neighbor 100.%d.7.%d remote-as 65001\n ipv6 address 2001:db8:%x::%x/64\n" % (
                              r.randint(0, 255), r.randint(0, 255), r.randint(64, 127), r.randint(1, 254), r.getrandbits(16), r.getrandbits(12) + 1)})
            continue
        if plan_opts is not None and r.random() < 0.3:
            # an earlier run over the SAME input in this process, with other options (library use)
            o2 = dict(plan_opts)
            if r.random() < 0.35 and plan_opts.get("ip"):
                # same salt, other host bits / preserve lists
                o2["hb"] = r.choice([x for x in (None, 0, 8, 16) if x != plan_opts.get("hb")])
                if r.random() < 0.3:
                    o2["pp"] = None if plan_opts.get("pp") else [GC.rand_net4(r)]
            else:
                o2["salt"] = GC.gen_salt(r, True)
            for f in ("pwd", "ip"):
                if r.random() < 0.4:
                    o2[f] = not o2[f]
            if r.random() < 0.5:
                o2["words"] = (list(plan_words) if plan_words and r.random() < 0.7 else ["kiwi", "zzother"])
                if r.random() < 0.5:
                    # ... and one more word, which for the observed run is an ordinary token of its input
                    o2["words"] = o2["words"] + [r.choice(["via", "description", "remark", "permit", "hostname", "contact", "core"])]
                    if r.random() < 0.7:
                        o2["salt"] = plan_opts["salt"] if plan_opts.get("salt") is not None else o2["salt"]
            if r.random() < 0.3:
                o2["reserved"] = [w.lower() + "-core" for w in plan_words[:2]] or None
            if not (o2["pwd"] or o2["ip"] or o2["words"] or o2["as"]):
                o2["pwd"] = True
            o2["undo"] = False
            items.append({"kind": "run", "step": {"entry": r.choice(["files", "file", "io"]), "opts": o2, "in": "in",
                                                  "out": "other/same%d" % len(items), "dump": None}, "bad": False})
            continue
        if plan_words and r.random() < 0.3:
            # shares a sensitive word with the observed run, but reserves tokens that contain it
            w = r.choice(plan_words)
            items.append({"kind": "anonymizer", "opts": {"pwd": False, "ip": False, "salt": GC.gen_salt(r, True),
                                                         "words": [w if r.random() < 0.5 else w.lower()],
                                                         "reserved": [w.lower() + "-core"], "undo": False}})
            continue
        reserved = []
        if r.random() < 0.6 and plan_words:
            reserved.append(r.choice(plan_words).lower())
        if r.random() < 0.4 and secrets:
            reserved.append(secrets[r.choice(sorted(secrets))]["a"])
        if r.random() < 0.4:
            reserved.append("qux%d" % r.randint(0, 9))
        opts = {"pwd": r.random() < 0.6, "ip": r.random() < 0.5, "salt": GC.gen_salt(r, True),
                "reserved": reserved or None, "words": ["zzother", "kiwi"] if r.random() < 0.4 else None,
                "pp": [GC.rand_net4(r)] if r.random() < 0.2 else None, "undo": False, "pa": None}
        if opts["ip"] and addrs and r.random() < 0.5:
            # preserves a network that contains one of the observed run's addresses
            import ipaddress as _ip
            a = r.choice(list(addrs))
            opts["pa"] = [str(_ip.ip_network("%s/%d" % (_ip.IPv4Address(a), r.choice([8, 16, 24])), strict=False))]
        if not opts["ip"]:
            opts["pp"] = None
        if c < 0.45:
            items.append({"kind": "anonymizer", "opts": opts})
        elif c < 0.8:
            items.append({"kind": "lines", "opts": opts,
                          "text": "password foo%d\nip address 10.%d.2.3 255.255.255.0\nenable secret 5 $1$abcd$%s\n" % (
                              r.randint(0, 99), r.randint(0, 255), "x" * 22)})
        else:
            undo = r.random() < 0.4
            o2 = dict(opts, undo=undo, ip=not undo or False)
            if undo:
                o2["ip"] = False
                o2["pwd"] = False
            items.append({"kind": "run", "step": {"entry": r.choice(["cli", "files"]), "opts": o2, "in": "other/in",
                                                  "out": "other/out%d" % len(items), "dump": None},
                          "bad": r.random() < 0.3})
    return items


def generate(seed, tier="quick", mode=None, child=False, **kw):
    r = random.Random(seed)
    mode = mode or r.choice(["c13", "c10"])
    if mode == "c10":
        return _gen_c10(r, seed, child)
    feats = [f for f in ("pwd", "ip", "words", "as") if r.random() < 0.6] or ["pwd"]
    nosalt = r.random() < 0.12
    # a salt outside the Juniper alphabet makes a $9$ line fail the file today -- identically in both executions
    o = GC.gen_opts(r, features=feats, cli_safe=True, j9=(r.random() > 0.12))
    if "words" in feats:
        GC.add_words(r, o, n=r.randint(2, 4))
    secrets = GC.gen_secrets(r, r.randint(1, 4), classes=["text", "sha", "sha", "md5", "t7", "num", "hex", "j9p", "c9", "j9p-num"] + (
        ["md5-long"] if r.random() < 0.2 else []), words=o["words"] or ())
    if r.random() < 0.25:
        o["reserved"] = ["zebra%d" % r.randint(0, 9)]
    as_heavy = False
    if o["as"] and r.random() < 0.2:
        # many AS numbers from the small private block (1024 values): replacement collisions become likely
        o["as"] = [str(x) for x in r.sample(range(64512, 65535), r.randint(25, 60))]
        as_heavy = True
    ctx = GC.make_ctx(r, o)
    many = o["pwd"] and r.random() < 0.1
    if many:
        # many small files with a different secret each (work that a change might spread over worker threads)
        secrets = GC.gen_secrets(r, 12, classes=["text", "num", "hex", "t7", "md5"], words=o["words"] or ())
    # (runs compared across real interpreters always have a few files in several directories)
    paths, dirs, hidden = GC.gen_tree(r, (r.randint(8, 12) if many else max(r.randint(1, 4), 3 if child else 1)), hidden=False,
                                      dirs=(r.random() < 0.5) or child)
    files = [{"path": p, "lines": GC.gen_lines(r, ctx, secrets, o, r.randint(1, 10))} for p in paths]
    if many:
        ids = sorted(secrets)
        for i, f in enumerate(files):
            ln = GC.secret_line(r, ctx, secrets, kinds=("keep",), ident=ids[i % len(ids)])
            f["lines"] = ([ln] if ln else []) + f["lines"][:2]
    if as_heavy:
        fl = r.choice(files)
        nums = list(o["as"])
        for i in range(0, len(nums), 12):
            fl["lines"].append({"segs": [["lit", " bgp confederation peers"]] + [x for n_ in nums[i:i + 12] for x in (
                ["lit", " "], ["as", n_, {"n": 0}])], "eol": "\n"})
    for w in (o["words"] or [])[:2]:
        if r.random() < 0.6:
            fl = r.choice(files)
            fl["lines"].insert(r.randint(0, len(fl["lines"])), {"segs": [["lit", " set group "], ["near", w.lower() + "-core"],
                                                                        ["lit", " active"]], "eol": "\n"})
    # content-level failures may be part of the scenario (identical in P1 and P2)
    if r.random() < 0.15:
        fl = r.choice(files)
        fl["lines"].insert(r.randint(0, len(fl["lines"])), {"segs": [["bad", "\xff"]], "eol": "\n"})
    if nosalt:
        o["salt"] = None
    dims = [r.choice(DIMS)] if r.random() < 0.7 else r.sample(DIMS, r.randint(2, 4))
    if many and "schedule" not in dims:
        dims = ["schedule"] + dims[:1]
    odd_salt = o["salt"] is not None and (o["salt"] == "" or o["salt"][0] not in G.J9_ALPHA)
    if odd_salt and o["pwd"]:
        # the failing path of $9$ secrets under such a salt must be just as repeatable as the normal one
        secrets = GC.gen_secrets(r, r.randint(1, 3), classes=["j9p", "j9p", "c9", "text"], words=o["words"] or ())
        files = [{"path": pth, "lines": GC.gen_lines(r, ctx, secrets, o, r.randint(1, 8))} for pth in paths]
        if "set_order" not in dims:
            dims = ["set_order"] + dims[:1]
    k1 = GC.gen_knobs(r)
    k2 = GC.gen_knobs(r)
    k2["listing_key"] = k1["listing_key"]          # listing order is part of the input here
    plan = {"family": NAME, "seed": seed, "mode": "c13", "files": files, "dirs": dirs, "secrets": secrets, "opts": o,
            "entry": r.choice(["cli", "cli", "files", "file", "io"]), "k1": k1, "k2": k2, "dims": dims, "nosalt": nosalt,
            "pre": _pre_items(r, o["words"] or [], secrets, r.randint(1, 4), plan_opts=o, addrs=ctx["a4"]),
            "dump": "map" if o["ip"] and r.random() < 0.5 else None,
            "child_hashseed": r.randint(1, 4_000_000_000) if child else None,
            "child_optimize": r.choice([0, 0, 1, 2]) if child else 0}
    return plan


def _disk(plan):
    disk = {"dirs": list(plan["dirs"]), "files": {}}
    for f in plan["files"]:
        disk["files"][f["path"]] = G.render_file(f["lines"], "a", plan["secrets"])
    disk["files"]["other/in/x.cfg"] = b"password otherpw\nip address 10.1.2.3 255.255.255.0\nsnmp-server community commm ro\n"
    disk["files"]["other/in/y.cfg"] = b"enable secret 5 $1$salt$aaaaaaaaaaaaaaaaaaaaaa\nneighbor 192.0.2.9 remote-as 65001\n"
    return disk


def _knobs(plan, dims):
    k = dict(plan["k1"])
    k2 = plan["k2"]
    if "entropy" in dims:
        k["urandom_key"] = k2["urandom_key"]
    if "rand" in dims:
        k["rand_seed"] = k2["rand_seed"]
    if "set_order" in dims:
        k["set_key"] = k2["set_key"]
    if "clock_pid" in dims:
        k["clock"], k["pid"], k["host"] = k2["clock"], k2["pid"], k2.get("host")
    if "environ" in dims:
        k["environ"] = k2["environ"]
        k["cwd"] = k2.get("cwd")
        k["cli_style"] = k2.get("cli_style", 0)      # another, equivalent spelling of the same command line
        k["log_level"] = k2.get("log_level")
    if "schedule" in dims:
        k["sched_key"] = k2["sched_key"]
    if "buffers" in dims:
        for x in ("bufsize", "chunk", "max_read", "max_write"):
            k[x] = k2[x]
    return k


def _exec(plan, dims, salt=None, child=None):
    o = dict(plan["opts"])
    if salt is not None:
        o["salt"] = salt
    if "list_order" in dims:
        # the same option SET, spelled in another order
        # (preserve lists are left alone: the map file lists their /32 entries in the order given, which is a
        # different spelling of the options rather than a different run of the same ones)
        for key in ("words", "as", "reserved"):
            if o.get(key) and len(o[key]) > 1:
                rot = plan["k2"]["pid"] % (len(o[key]) - 1) + 1
                o[key] = list(reversed(o[key][rot:] + o[key][:rot]))
    pre = []
    disk = _disk(plan)
    if "prehistory" in dims:
        for it in plan["pre"]:
            if it["kind"] == "run" and it.get("bad"):
                disk["files"]["other/in/bad.cfg"] = b"bad \xff\n"
            pre.append(it)
    if "stale_out" in dims:
        # leftover state on disk: an earlier, unrelated run left longer files at the very same output paths
        for f in plan["files"]:
            disk["files"][W.mirror("in", "out", f["path"])] = b"! result of an earlier run with other options\n" * (len(f["lines"]) + 9)
        if plan["dump"]:
            disk["files"][plan["dump"]] = b"198.51.100.1\t203.0.113.1\n" * 40
    step = {"entry": plan["entry"], "opts": o, "in": "in", "out": "out", "dump": plan["dump"]}
    knobs = _knobs(plan, dims)
    if child is not None:
        knobs = dict(knobs, real_set_order=True)
    pspec = {"knobs": knobs, "faults": [], "pre": pre, "steps": [step]}
    if "host_threads" in dims and child is None and plan["opts"]["salt"] is not None:
        # a threaded host application: while this run goes on in one caller thread, two other threads anonymize the same
        # tree with anonymizers of their own (other salts, passwords and addresses on); the seeded interleaver moves the
        # baton at line events inside the package, so one key is one interleaving
        if step["entry"] == "cli":
            step = dict(step, entry="files")
        others = [{"entry": e, "opts": dict(o, salt=(o["salt"] or "") + sfx, pwd=True, ip=True, undo=False, words=None, reserved=None),
                   "in": "in", "out": "other/thr%d" % n, "dump": None}
                  for n, (e, sfx) in enumerate([("files", "T1"), ("file", "t2")])]
        for st in others:
            st["opts"]["as"] = None
        pspec = dict(pspec, steps=[step] + others, threads={"key": plan["k2"]["sched_key"], "rate": 0.03})
    world = {"disk": disk, "procs": [pspec]}
    if child is not None:
        H = core.run_child_world(world, child, plan.get("child_optimize", 0))
        h = H["procs"][0]
        h["nsys"] = len(h["trace"])
        return h
    H = W.run_world(world)
    return H["procs"][0]


def _view(h):
    """What C13 compares: the complete output tree and the dump (not the unrelated earlier runs)."""
    return {k: v for k, v in h["snap"]["files"].items() if k.startswith("out/") or k == "map"}


def _witness(a, b):
    for k in sorted(set(a) | set(b)):
        if a.get(k) != b.get(k):
            x, y = a.get(k), b.get(k)
            if x is None or y is None:
                return k, "file present in one run only", ""
            xl, yl = x.split(b"\n"), y.split(b"\n")
            for n, (p, q) in enumerate(zip(xl, yl)):
                if p != q:
                    cls = "other"
                    if b"$6$" in p:
                        cls = "$6$ replacement"
                    elif b"$1$" in p:
                        cls = "$1$ replacement"
                    elif b"netconanRemoved" in p or b"netconanRemoved" in q:
                        cls = "pseudonym numbering / reserved secret"
                    elif re.search(rb"[0-9a-f]{6}", p) and re.search(rb"[0-9a-f]{6}", q):
                        cls = "sensitive-word replacement"
                    return k, cls, "line %d: %r vs %r" % (n, p[:100], q[:100])
            return k, "length", "line counts %d vs %d" % (len(xl), len(yl))
    return None, None, None


def check(plan):
    if plan["mode"] == "c10":
        return _check_c10(plan)
    V = []
    probes = {"d_" + d: 1 for d in plan["dims"]}
    probes.update({"nosalt": int(plan["nosalt"]), "child_runs": 0, "attributions": 0, "sha_present": 0, "overlap_words": 0,
                   "entropy_consumed": 0, "set_seam_entered": 0, "prehistory_items": 0})
    steps = 0
    h1 = _exec(plan, [])
    steps += h1["nsys"]
    salt = None
    exercised = False
    if plan["nosalt"]:
        for lv, msg, tb in h1["logs"]:
            m = re.search(r'"([A-Za-z0-9]{4,})"', msg) if lv == "WARNING" and "salt" in msg.lower() else None
            if m:
                salt = m.group(1)
        if salt is None:
            if h1["steps"] and h1["steps"][0]["outcome"] == "ok":
                V.append({"prop": "C13", "tag": "salt-not-reported",
                          "detail": "no salt was supplied and no WARNING record reports the generated one: %r" % (
                              [m for lv, m, tb in h1["logs"]][:3])})
            return _res(plan, V, probes, steps, [W.public_hist(h1)], False)
        exercised = True
    dims = list(plan["dims"])
    child = plan.get("child_hashseed")
    if plan["nosalt"]:
        hb = _exec(plan, [], salt=salt)
        steps += hb["nsys"]
        if _view(hb) != _view(h1):
            k, cls, where = _witness(_view(h1), _view(hb))
            V.append({"prop": "C13", "tag": "differs:reported-salt-rerun", "key": cls,
                      "detail": "no salt was supplied; re-running with the reported salt %r (nothing else changed) gives other "
                                "output; witness %r (%s): %s" % (salt, k, cls, where)})
            return _res(plan, V, probes, steps, [W.public_hist(h1), W.public_hist(hb)], True)
    h2 = _exec(plan, dims, salt=salt, child=child)
    steps += h2["nsys"]
    if child is not None:
        probes["child_runs"] = 1
    words = plan["opts"]["words"] or []
    low = [w.lower() for w in words]
    probes["overlap_words"] = int(any(a != b and a in b for a in low for b in low))
    probes["sha_present"] = int(any(s["cls"] == "sha" for s in plan["secrets"].values()) and plan["opts"]["pwd"])
    probes["entropy_consumed"] = int(h1.get("entropy_calls", 0) > 0) if "entropy_calls" in h1 else 0
    probes["set_seam_entered"] = int(h1.get("set_order_entries", 0) > 0) if "set_order_entries" in h1 else 0
    probes["prehistory_items"] = len(plan["pre"]) if "prehistory" in dims else 0
    v1, v2 = _view(h1), _view(h2)
    if "stale_out" in dims:
        # a file that failed before its output was opened leaves the older file alone: not this property's business
        for k in [k for k in v2 if k not in v1 and v2[k].startswith((b"! result of an earlier run", b"198.51.100.1\t203.0.113.1"))]:
            del v2[k]
    if v1 != v2:
        # attribute: one dimension at a time
        culprits = []
        if child is None:
            for d in dims:
                probes["attributions"] += 1
                hd = _exec(plan, [d], salt=salt)
                steps += hd["nsys"]
                if _view(hd) != v1:
                    culprits.append(d)
        else:
            culprits = ["real-interpreter(PYTHONHASHSEED%s)" % (", PYTHONOPTIMIZE=%d" % plan["child_optimize"] if plan.get("child_optimize") else "")] + [d for d in dims]
        k, cls, where = _witness(v1, v2)
        label = "+".join(culprits) if culprits else "combination(" + "+".join(dims) + ")"
        if plan["nosalt"] and not culprits:
            label = "reported-salt-rerun"
        V.append({"prop": "C13", "tag": "differs:" + label, "key": cls,
                  "detail": "same salt, options and input, outputs differ when only [%s] changed; witness %r (%s): %s" % (
                      label, k, cls, where)})
    if "entropy" in dims:
        exercised = exercised or probes["entropy_consumed"] or probes["sha_present"]
    if "set_order" in dims:
        exercised = exercised or bool(words)
    if "prehistory" in dims:
        exercised = exercised or bool(plan["pre"])
    if "list_order" in dims:
        exercised = exercised or any(plan["opts"].get(k) and len(plan["opts"][k]) > 1 for k in ("words", "as", "reserved"))
    if "schedule" in dims:
        probes["sched_points"] = h1.get("sched_points", 0) + (h2.get("sched_points", 0) if isinstance(h2, dict) else 0)
    if isinstance(h2, dict) and h2.get("thread_points"):
        probes["host_thread_runs"] = 1
        probes["host_thread_switches"] = h2.get("thread_switches", 0)
        probes["host_thread_points"] = h2.get("thread_points", 0)
    if any(d in dims for d in ("rand", "clock_pid", "buffers", "environ", "stale_out")) or child is not None:
        exercised = True
    return _res(plan, V, probes, steps, [W.public_hist(h1), {k: v for k, v in h2.items() if k in (
        "steps", "outcome", "logs", "trace", "handed", "faults", "snap")}], exercised)


def _res(plan, V, probes, steps, digest_items, nontrivial):
    seen, out = set(), []
    for v in V:
        k = (v["prop"], v["tag"])
        if k not in seen:
            seen.add(k)
            out.append(v)
    prop = "C13" if plan["mode"] == "c13" else "C10"
    o = plan["opts"]
    sig = core.digest([plan["mode"], plan.get("dims"), plan.get("nosalt"), plan["entry"], sorted(k for k, v in o.items() if v),
                       [len(f["lines"]) for f in plan["files"]], sorted(s["cls"] for s in plan["secrets"].values()),
                       len(plan.get("pre", [])), plan.get("orders")])
    return {"violations": out, "digest": core.digest(digest_items), "sig": sig, "nontrivial": {prop: bool(nontrivial)},
            "faults": {}, "probes": probes, "steps": steps,
            "sample": {"mode": plan["mode"], "dims": plan.get("dims"), "entry": plan["entry"], "nosalt": plan.get("nosalt"),
                       "opts": {k: v for k, v in o.items() if v not in (None, False)},
                       "pre": [{"kind": it["kind"], "reserved": (it.get("opts") or it["step"]["opts"]).get("reserved")}
                               for it in plan.get("pre", [])][:4],
                       "files": {f["path"]: [G.render_line(ln, "a", plan["secrets"]).rstrip("\n")[:60] for ln in f["lines"][:3]]
                                 for f in plan["files"][:2]}, "orders": plan.get("orders")}}


# ---------------------------------------------------------------------------
# C10
# ---------------------------------------------------------------------------
def _gen_c10(r, seed, child=False):
    feats = ["words"] + [f for f in ("pwd", "ip", "as") if r.random() < 0.2]
    o = GC.gen_opts(r, features=feats, cli_safe=True, j9=True)
    if r.random() < 0.15:
        # the word list together with --undo (addresses are restored, words are still replaced)
        o.update(GC.gen_opts(r, features=["ip"], cli_safe=True, j9=True), ip=False, undo=True, pwd=o["pwd"], salt=o["salt"], **{"as": o["as"]})
    style = r.choice(["overlap", "plain", "reserved"])
    words = G.gen_words(r, r.randint(1, 5), G.VOCAB_TEXT)
    if style == "plain":
        # no word contains another
        words = [w for i, w in enumerate(words) if not any(i != j and w.lower() in x.lower() for j, x in enumerate(words))]
    rw = []
    if style == "reserved":
        base = r.choice(BUILTIN_RESERVED)
        # a listed word that is a substring of a built-in reserved word, starting and ending outside a-f
        subs = [base[i:j] for i in range(len(base)) for j in range(i + 3, len(base) + 1)
                if re.fullmatch(r"[g-z][a-z-]*[g-z]", base[i:j]) and base[i:j] not in "netconanremoved"]
        if subs:
            words.append(r.choice(subs))
            rw.append(base)
    o["words"] = words or ["zorvex"]
    if o["pwd"] and r.random() < 0.5:
        # words that occur in the text netconan itself generates (pseudonyms, scrub marker)
        o["words"] = o["words"] + r.sample(["net", "onan", "remov", "netconanr", "sensitiv", "lin", "onanrem"], r.randint(1, 2))
        style = "overlap"
    user_res = []
    if r.random() < 0.4:
        w = r.choice(o["words"]).lower()
        user_res.append(w + "land")
        o["reserved"] = list(user_res)
        rw.append(w + "land")
    secrets = GC.gen_secrets(r, 2, classes=["text", "num", "hex"], words=o["words"])
    ctx = GC.make_ctx(r, o)
    lines = []
    for _ in range(r.randint(3, 14)):
        c = r.random()
        if c < 0.55:
            lines.append(G.expand(r, r.choice(G.LINES_W), ctx))
        elif c < 0.70 and rw:
            tok = r.choice(rw)
            v = r.random()
            inner = [w for w in o["words"] if w.lower() in tok]
            if v < 0.25 and inner:
                # the reserved token and, on the same line, the bare listed word it contains
                lines.append({"segs": [["lit", "ip domain "], ["rw", tok], ["lit", " vrf "], ["w", r.choice(inner), {"w": 0}],
                                       ["lit", " example.net"]], "eol": "\n"})
            elif v < 0.6:
                lines.append({"segs": [["lit", r.choice(["", " ", "  set "])], ["rw", tok], ["lit", r.choice(["", " bgp 65001", " x"])]],
                              "eol": "\n"})
            else:   # near misses: not exactly the reserved word, so the listed word inside must go
                near = r.choice([tok.capitalize(), tok + "1", "x" + tok, tok.upper()])
                lines.append({"segs": [["lit", "description "], ["near", near], ["lit", " end"]], "eol": "\n"})
        elif c < 0.78:
            lines.append({"segs": [["lit", " set group "], ["near", r.choice(o["words"]).lower() + "-core"], ["lit", " active"]],
                          "eol": "\n"})
        elif c < 0.88:
            lines.append(G.lit_line(r.choice(G.BENIGN)))
        elif o["pwd"]:
            ln = GC.secret_line(r, ctx, secrets, kinds=(r.choice(["keep", "keep", "scrub"]),))
            if ln:
                lines.append(ln)
        else:
            lines.append(G.expand(r, r.choice(G.LINES_A4), ctx))
    if r.random() < 0.05:
        lines.insert(r.randint(0, len(lines)), GC.boundary_line(r, ctx, boundary=r.choice([8192, 65536, 65536]), words=True))
    if rw and r.random() < 0.06:
        # a long stretch of lines that hold a listed word and thousands of distinct other tokens, then the reserved tokens
        # again: size-bounded per-token memos must not forget which tokens are reserved (seeded C10-t)
        n_tok = r.choice([1200, 4500, 9000])
        inner_all = [w for w in o["words"] if any(w.lower() in t for t in rw)] or o["words"]
        at = r.randint(0, len(lines) // 2)
        bulk, k = [], 0
        while k < n_tok:
            per = r.randint(6, 14)
            bulk.append({"segs": [["lit", "description "], ["w", r.choice(inner_all), {"w": 0}],
                                  ["lit", " " + " ".join("k%05dk" % (k + j) for j in range(per))]], "eol": "\n"})
            k += per
        lines[at:at] = bulk
        for tok in rw:
            lines.append({"segs": [["lit", r.choice(["", " set "])], ["rw", tok], ["lit", r.choice(["", " x"])]], "eol": "\n"})
    collide = None
    if r.random() < 0.08 and style != "reserved":
        # two matched texts directed at one another: with ~10 000 case variants of a long word list, some pair shares the first
        # six hex digits of md5(salt + text) - the construction the code documents.  Used only to aim: the oracle stays
        # "a matched text has one pseudonym, whatever else the run has seen" (the second execution reads the lines backwards)
        import hashlib
        extra = [w for w in G.gen_words(r, 40, G.VOCAB_TEXT + "\n" + "\n".join(o["words"])) if w.isascii() and len(w) >= 7]
        allw = o["words"] + [w for w in extra if w.lower() not in [x.lower() for x in o["words"]]]
        # no word of these plans contains another (the per-occurrence pseudonym check is skipped for overlapping lists)
        o["words"] = [w for i, w in enumerate(allw) if not any(i != j and w.lower() in x.lower() for j, x in enumerate(allw))] or allw[:1]
        extra = [w for w in extra if w in o["words"]]
        lines[:] = [ln for ln in lines if all(sg[0] not in ("w", "near", "rw") or sg[0] != "w" or sg[1].lower() in [x.lower() for x in o["words"]]
                                              for sg in ln["segs"])]
        for ln in lines:
            for sg in ln["segs"]:
                if sg[0] == "w":
                    sg[2]["w"] = [x.lower() for x in o["words"]].index(sg[1].lower())
        seen = {}
        for w in extra:
            low = w.lower()
            for m in range(1 << len(low)):
                t = "".join(ch.upper() if m >> i & 1 else ch for i, ch in enumerate(low))
                k = hashlib.md5((o["salt"] + t).encode()).hexdigest()[:6]
                if k in seen and seen[k] != t:
                    collide = [seen[k], t]
                    break
                seen[k] = t
            if collide:
                break
        if collide:
            for t in collide:
                wi = [x.lower() for x in o["words"]].index(t.lower())
                lines.append({"segs": [["lit", "hostname "], ["w", t, {"w": wi}], ["lit", "-gw"]], "eol": "\n"})
    if (o["ip"] or o["undo"] or o["pwd"]) and r.random() < 0.06 and not collide:
        # the last line makes an earlier stage fail (today the file then fails at that line, C14's subject): whatever is
        # written for it must not hold a listed word
        wi = r.randrange(len(o["words"]))
        if o["ip"] or o["undo"]:
            head = r.choice([" ipv6 address fe80:%eth0 description ", " ipv6 route fe80::::%eth0 name "])
        else:
            head = "enable secret 5 $1$toolongsalt123$abcdefghijklmnopqrstuv "
        lines.append({"segs": [["lit", head], ["w", o["words"][wi], {"w": wi}], ["lit", "-core1"]], "eol": "\n"})
    if o["pwd"] and r.random() < 0.4:
        # a reserved word in a secret position stays as it is - also after the run has met a Juniper secret whose clear
        # text is that very word, the word as a listed sensitive word's container, or the word in another case
        cap = None
        if r.random() < 0.3:
            # a reserved word of the user's own that contains capitals (and none of the listed words)
            cap = r.choice(["CorpWideRO7", "NOC-Readonly", "Backbone2RW"])
            o["reserved"] = (o["reserved"] or []) + [cap]
        rword = cap or r.choice(GC.RESERVED_BASES + ["accept", "access", "aaa"] + user_res)
        at = r.randint(0, len(lines))
        lines.insert(at, {"segs": [["lit", r.choice(["snmp-server community ", "radius-server key ", " username admin password "])],
                                   ["rsec", rword], ["lit", r.choice(["", "", " ro 1"])]], "eol": "\n"})
        if r.random() < 0.7:
            sid = str(len(secrets))
            secrets[sid] = {"cls": "j9p", "a": rword, "b": rword}
            lines.insert(r.randint(0, at), {"segs": [["lit", r.choice(["radius-server key ", "tacacs-server key "])],
                                                     ["sec", "", {"id": int(sid), "kind": "keep", "enc": "j9", "salt": r.choice(G.J9_ALPHA),
                                                                  "fill": r.choice("nQz7i")}]],
                                            "eol": "\n", "kind": "keep", "tmpl": "radius-server key {}"})
    n = len(o["words"])
    low = sorted({w.lower() for w in o["words"]})
    if len(low) <= 3:
        orders = [list(p) for p in itertools.permutations(low)]
    else:
        orders = []
        for _ in range(4):
            p = list(low)
            r.shuffle(p)
            orders.append(p)
    pre = _pre_items(r, o["words"], secrets, r.choice([0, 1, 1, 2, 3]), plan_opts=o)
    for it in pre:
        if it["kind"] == "run":
            if it["step"]["in"] == "in":
                it["kind"] = "lines"
                it["opts"] = it.pop("step")["opts"]
                it["text"] = "__SAME_INPUT__"
            else:
                it["kind"] = "anonymizer"
                it["opts"] = it.pop("step")["opts"]
            it.pop("bad", None)
    return {"family": NAME, "seed": seed, "mode": "c10", "files": [{"path": "in/a.cfg", "lines": lines}], "dirs": ["in"],
            "secrets": secrets, "opts": o, "entry": r.choice(["cli", "files", "io", "file"]), "orders": orders, "pre": pre,
            "k1": GC.gen_knobs(r), "style": style, "rw": rw, "user_reserved": user_res, "collide": collide,
            "child_hashseeds": [r.randint(1, 4_000_000_000) for _ in range(2)] if child else []}


def _check_c10(plan):
    V = []
    o = plan["opts"]
    probes = {"orders": len(plan["orders"]), "style_" + plan["style"]: 1, "w_occurrences": 0, "rw_tokens": 0,
              "near_miss_tokens": 0, "reserved_secret_slots": 0, "prehistory_execs": 0, "set_seam_entered": 0, "pseudonyms_seen": 0, "unextractable": 0}
    words = [w.lower() for w in o["words"]]
    overlapping = any(a != b and a in b for a in words for b in words)
    from .proc import SimProcess
    p0 = SimProcess({})
    drw = getattr(p0.modules.get("netconan.default_reserved_words"), "default_reserved_words", None)
    builtin = {str(w).lower() for w in drw} if drw is not None else set()
    reserved = builtin | {w.lower() for w in (o["reserved"] or [])}
    disk = {"dirs": ["in"], "files": {"in/a.cfg": G.render_file(plan["files"][0]["lines"], "a", plan["secrets"])}}
    lines = plan["files"][0]["lines"]
    same_text = disk["files"]["in/a.cfg"].decode("utf-8", "replace")
    pre_items = copy.deepcopy(plan["pre"])
    for it in pre_items:
        if it.get("text") == "__SAME_INPUT__":
            it["text"] = same_text
    execs = []
    for n, order in enumerate(plan["orders"]):
        execs.append((order, []))
    if pre_items:
        execs.append((plan["orders"][0], pre_items))
        execs.append((plan["orders"][-1], list(reversed(pre_items))))
    fmap = {}            # (matched text) -> pseudonym
    steps = 0
    digest_items = []
    outs = []
    for hs in plan.get("child_hashseeds", []):
        execs.append((("child", hs), pre_items))
    if plan.get("collide"):
        execs.append((("reversed", plan["orders"][0]), []))
        probes["directed_collisions"] = 1
    probes["child_runs"] = 0
    lines_fwd, disk_fwd = lines, disk
    for order, pre in execs:
        lines, disk = lines_fwd, disk_fwd
        rev_note = ""
        if isinstance(order, tuple) and order[0] == "reversed":
            rev_note = ", lines read last first"
            # the same lines, last first: every matched text must still get the pseudonym it got before
            lines = list(reversed(lines_fwd))
            disk = copy.deepcopy(disk_fwd)
            disk["files"]["in/a.cfg"] = G.render_file([dict(ln, eol="\n") for ln in lines], "a", plan["secrets"])
            order = order[1]
        step = {"entry": plan["entry"], "opts": o, "in": "in/a.cfg", "out": "out.cfg", "dump": None}
        if isinstance(order, tuple):
            probes["child_runs"] += 1
            knobs = dict(plan["k1"], real_set_order=True)
            H = core.run_child_world({"disk": disk, "procs": [{"knobs": knobs, "faults": [], "pre": pre, "steps": [step]}]}, order[1])
            h = H["procs"][0]
            h["nsys"] = len(h["trace"])
            h["set_order_entries"] = 0
            order = "real interpreter PYTHONHASHSEED=%d" % order[1]
            digest_items.append({k: v for k, v in h.items() if k in ("steps", "outcome", "logs", "handed", "snap")})
        else:
            knobs = dict(plan["k1"], set_order=order)
            H = W.run_world({"disk": disk, "procs": [{"knobs": knobs, "faults": [], "pre": pre, "steps": [step]}]})
            h = H["procs"][0]
            digest_items.append(W.public_hist(h))
        steps += h["nsys"] + 1
        if pre:
            probes["prehistory_execs"] += 1
        probes["set_seam_entered"] += int(h["set_order_entries"] > 0)
        data = h["snap"]["files"].get("out.cfg")
        if data is None:
            continue
        try:
            olines = data.decode("utf-8").split("\n")
        except UnicodeDecodeError:
            continue
        label = "set order %s%s%s" % (order, ", after %d unrelated earlier anonymizer(s) in the same process" % len(pre) if pre else "", rev_note)
        outs.append((label, data))
        for ln_no, ol in enumerate(olines):
            for tok in ol.split():
                if tok in reserved:
                    continue
                tl = tok.lower()
                for w in words:
                    if w in tl:
                        V.append({"prop": "C10", "tag": "word-survives",
                                  "detail": "%s: listed word %r survives in token %r of output line %d %r (input %r)" % (
                                      label, w, tok, ln_no, ol[:100],
                                      G.render_line(lines[ln_no], "a", plan["secrets"]).rstrip("\n")[:100] if ln_no < len(lines) else None),
                                  "key": "reserved-by-earlier" if pre else None})
                        break
        for ln_no, ln in enumerate(lines):
            if ln_no >= len(olines):
                break
            roles = {s[0] for s in ln["segs"]}
            if not roles & {"w", "rw", "near", "rsec"}:
                continue
            toks = extract(ln, olines[ln_no], plan["secrets"], True)
            if toks is None:
                probes["unextractable"] += 1
                continue
            for seg, tok in toks:
                if seg[0] == "rw":
                    probes["rw_tokens"] += 1
                    if tok != seg[1] and seg[1] in reserved:
                        V.append({"prop": "C10", "tag": "reserved-token-changed",
                                  "detail": "%s: token %r is exactly a reserved word but came out as %r" % (label, seg[1], tok)})
                elif seg[0] == "rsec":
                    probes["reserved_secret_slots"] += 1
                    if tok != seg[1] and (seg[1] in reserved or seg[1] in (o["reserved"] or [])):
                        V.append({"prop": "C10", "tag": "reserved-secret-changed",
                                  "detail": "%s: the secret value %r is a reserved word but came out as %r (output line %d %r)" % (
                                      label, seg[1], tok, ln_no, olines[ln_no][:100])})
                elif seg[0] == "near":
                    probes["near_miss_tokens"] += 1
                elif seg[0] == "w":
                    probes["w_occurrences"] += 1
                    if overlapping:
                        continue
                    if not re.fullmatch(r"[0-9a-f]{6}", tok):
                        if tok.lower() == seg[1].lower():
                            continue          # survival is reported by clause (1)
                        V.append({"prop": "C10", "tag": "not-one-pseudonym",
                                  "detail": "%s: occurrence %r was replaced by %r, not by one pseudonym" % (label, seg[1], tok)})
                        continue
                    prev = fmap.setdefault(seg[1], (tok, label))
                    if prev[0] != tok:
                        V.append({"prop": "C10", "tag": "pseudonym-not-a-function",
                                  "detail": "matched text %r -> %r (%s) but %r (%s)" % (seg[1], prev[0], prev[1], tok, label)})
    probes["pseudonyms_seen"] = len(fmap)
    nontrivial = (overlapping or bool(plan["rw"])) and (len(plan["orders"]) > 1 or bool(plan["pre"]))
    return _res(plan, V, probes, steps, digest_items, nontrivial)


# ---------------------------------------------------------------------------
def shrink_candidates(plan):
    if plan["mode"] == "c13":
        for kept in core.drop_chunks(plan["dims"], 1):
            p = copy.deepcopy(plan)
            p["dims"] = list(kept)
            yield p
        if plan.get("nosalt"):
            p = copy.deepcopy(plan)
            p["nosalt"] = False
            p["opts"]["salt"] = "s"
            yield p
    else:
        for kept in core.drop_chunks(plan["orders"], 1):
            p = copy.deepcopy(plan)
            p["orders"] = copy.deepcopy(kept)
            yield p
    for kept in core.drop_chunks(plan["pre"], 0):
        p = copy.deepcopy(plan)
        p["pre"] = copy.deepcopy(kept)
        yield p
    if len(plan["files"]) > 1:
        for kept in core.drop_chunks(plan["files"], 1):
            p = copy.deepcopy(plan)
            p["files"] = copy.deepcopy(kept)
            yield p
    for i, f in enumerate(plan["files"]):
        for kept in core.drop_chunks(f["lines"], 0):
            p = copy.deepcopy(plan)
            p["files"][i]["lines"] = copy.deepcopy(kept)
            yield p
    o = plan["opts"]
    for key, simple in (("pwd", False), ("ip", False), ("as", None), ("reserved", None), ("pp", None), ("pa", None),
                        ("private", False), ("hb", None)) + ((("words", None),) if plan["mode"] == "c13" else ()):
        if o.get(key) != simple:
            p = copy.deepcopy(plan)
            p["opts"][key] = simple
            if key == "ip":
                p["dump"] = None
            if W.any_feature(p["opts"]):
                yield p
    if o.get("words") and len(o["words"]) > 1:
        for kept in core.drop_chunks(o["words"], 1):
            p = copy.deepcopy(plan)
            p["opts"]["words"] = list(kept)
            if plan["mode"] == "c10":
                lowk = [w.lower() for w in kept]
                p["orders"] = [[w for w in od if w in lowk] for od in plan["orders"]]
            yield p
    if plan.get("entry") != "files":
        p = copy.deepcopy(plan)
        p["entry"] = "files"
        yield p
    for i, it in enumerate(plan["pre"]):
        if it["kind"] != "anonymizer":
            p = copy.deepcopy(plan)
            opts = it.get("opts") or it["step"]["opts"]
            p["pre"][i] = {"kind": "anonymizer", "opts": opts}
            yield p
